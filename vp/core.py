"""Shared driver: cases, violations, known findings, evidence, shards.

A *case* is a JSON-serialisable dict.  Hypothesis draws cases; `run_case(case, ctx)` is a pure function
of the case and the code under test and raises `Violation` when the oracle disagrees.  The shrunk case
is written as the replay file and re-run without Hypothesis by `./check <id> --replay <file>`."""
import collections
import hashlib
import importlib
import json
import os
import shutil
import signal
import subprocess
import sys
import time
import traceback

from . import env

N_SHARDS = int(os.environ.get("VERIF_SHARDS", "16"))


class Violation(Exception):
    def __init__(self, kind, detail=""):
        super().__init__(f"{kind}: {detail}")
        self.kind = kind
        self.detail = str(detail)[:2000]


class HarnessError(Exception):
    pass


class EnvironmentTrouble(Exception):
    """The machine, not the code under test: thread, memory, descriptor or disk exhaustion."""


def environment_trouble(e):
    import errno
    seen = set()
    while e is not None and id(e) not in seen:
        seen.add(id(e))
        if isinstance(e, MemoryError):
            return True
        if isinstance(e, RuntimeError) and "can't start new thread" in str(e):
            return True
        if isinstance(e, OSError) and e.errno in (errno.EAGAIN, errno.ENOMEM, errno.EMFILE, errno.ENFILE, errno.ENOSPC):
            return True
        if "Resource temporarily unavailable" in str(e) or "Cannot allocate memory" in str(e):
            return True
        e = e.__cause__ or e.__context__
    return False


def library_exception(e):
    """An exception that escaped from seismic_zfp code on inputs the generators construct as valid is
    a property failure, bucketed by (type, innermost seismic_zfp frame); an exception raised by the
    harness itself (no seismic_zfp frame below the harness frame) is a harness error."""
    import traceback as tb
    frames = tb.extract_tb(e.__traceback__)
    pkg = os.path.join(os.path.realpath(env.REPO), "seismic_zfp") + os.sep
    inner = None
    for fr in frames:
        if os.path.realpath(fr.filename).startswith(pkg):
            inner = fr
    if inner is None:
        return None
    where = f"{os.path.basename(inner.filename)}:{inner.name}"
    return Violation(f"library-exception:{type(e).__name__}:{where}", f"{type(e).__name__}: {e} (at {where} line {inner.lineno})")


def jsonable(x):
    import numpy as np
    if isinstance(x, dict):
        return {str(k): jsonable(v) for k, v in x.items()}
    if isinstance(x, (list, tuple)):
        return [jsonable(v) for v in x]
    if isinstance(x, (np.integer,)):
        return int(x)
    if isinstance(x, (np.floating,)):
        return float(x)
    if isinstance(x, np.ndarray):
        return x.tolist()
    if isinstance(x, bytes):
        return x.hex()
    return x


def load_known():
    path = os.path.join(env.VERIF_DIR, "known_findings.json")
    if not os.path.exists(path):
        return []
    return json.load(open(path))["findings"]


def open_known_for(prop):
    return [k for k in load_known() if k["status"] == "open" and prop in k.get("properties", [k["property"]])]


class Ctx:
    """Per-shard context."""
    def __init__(self, prop, tier, seed, shard, nshards, work):
        self.prop, self.tier, self.seed, self.shard, self.nshards = prop, tier, seed, shard, nshards
        self.work = work
        os.makedirs(work, exist_ok=True)
        self.t0 = time.time()
        self.evaluations = 0
        self.sigs = set()
        self.samples = []
        self.labels = collections.Counter()
        self.known_hits = collections.Counter()
        self.failures = []
        self.env_trouble = []
        self._tmp, self._tmp_n = None, 0
        self.extra = {}
        self.exhaustive = None
        self._case_n = 0
        self.current_case_file = os.path.join(work, "current_case.json")
        from . import known
        self.known = known
        self.open_known = open_known_for(prop)

    # ---- scratch
    def tmp(self):
        """A fresh directory for this case, under a path no earlier case used: whatever the code under test
        remembers per file name must not leak from one case into the next (a failure would not replay).
        Carry-over between conversions is generated explicitly (the 'prior' steps of C01, C04, C11)."""
        if self._tmp is not None:
            shutil.rmtree(self._tmp, ignore_errors=True)
        self._tmp_n += 1
        self._tmp = os.path.join(self.work, f"case{self._tmp_n}")
        shutil.rmtree(self._tmp, ignore_errors=True)
        os.makedirs(self._tmp)
        return self._tmp

    def hseed(self, name=""):
        h = hashlib.sha256(f"{self.prop}/{name}/{self.seed}/{self.shard}".encode()).digest()
        return int.from_bytes(h[:8], "little")

    def n(self, quick, thorough):
        """Number of examples for this shard in this tier."""
        scale = float(os.environ.get("VERIF_SCALE", "1"))
        if self.tier == "thorough":
            # the thorough tier runs three times the case counts written in the checks (about five hours for all
            # twenty properties on 16 cores); the wall-clock valve still only ever drops remaining cases
            scale *= float(os.environ.get("VERIF_THOROUGH_SCALE", "3"))
        return max(1, int((quick if self.tier == "quick" else thorough) * scale))

    # ---- bookkeeping
    def note(self, case, sig=None, labels=(), sigs=None, evals=1):
        # evals: how many oracle evaluations the case stands for (a program of expressions counts each)
        self.evaluations += max(1, int(evals))
        for l in labels:
            self.labels[l] += 1
        sigs = list(sigs or [])
        if sig is not None:
            sigs.append(sig)
        if sigs:
            for s in sigs:
                if len(self.sigs) < 50000:
                    self.sigs.add(json.dumps(jsonable(s), sort_keys=True) if not isinstance(s, str) else s)
            # keep a few non-trivial samples, spread over the run
            self._case_n += 1
            if len(self.samples) < 4 or (self._case_n % 97 == 0 and len(self.samples) < 10):
                self.samples.append(jsonable(case))

    def mark_current(self, case):
        """Persist the case about to run so that a dying interpreter can be attributed to it."""
        with open(self.current_case_file, "w") as f:
            json.dump(jsonable(case), f)

    def evaluate(self, case, run_case):
        """Run one case.  Returns True if it passed (or hit only a listed known finding)."""
        self.mark_current(case)
        try:
            try:
                res = run_case(case, self) or {}
            except Violation:
                raise
            except Exception as e:
                if environment_trouble(e):
                    # never a verdict about the code: the case is dropped and the run ends inconclusive (exit 2)
                    self.labels["environment-trouble"] += 1
                    self.env_trouble.append(f"{type(e).__name__}: {e}"[:200])
                    return True
                v = library_exception(e)
                if v is None:
                    raise
                raise v
        except Violation as v:
            if self.env_trouble and ("can't start new thread" in v.detail or "Resource temporarily unavailable" in v.detail):
                self.labels["environment-trouble"] += 1
                return True
            kid = self.known.match(self.open_known, self.prop, case, v)
            if kid is not None:
                self.known_hits[kid] += 1
                self.note(case, sig=None, labels=("known:" + kid,))
                return True
            raise
        self.note(case, res.get("sig"), res.get("labels", ()), res.get("sigs"), res.get("evals", 1))
        return True

    # ---- hypothesis driver
    def explore(self, name, strategy, run_case, max_examples, shrink_s=None, budget_s=None):
        """Drive `run_case` with cases drawn from `strategy`.  Stops at the first failure, shrinks it
        (bounded), records it.  Returns True when no failure was found."""
        import hypothesis
        from hypothesis import given, settings, HealthCheck, Phase, seed
        if shrink_s is None:
            shrink_s = 25 if self.tier == "quick" else 240
        if budget_s is None:
            budget_s = float(os.environ.get("VERIF_BUDGET_S", 150 if self.tier == "quick" else 6000))
        state = {"best": None, "best_v": None, "first_fail_t": None, "stopped": 0}
        t_start = time.time()

        def body(case):
            case = dict(case)
            case["check"] = name
            if state["first_fail_t"] is not None and time.time() - state["first_fail_t"] > shrink_s:
                # shrink budget used up: let every further attempt pass quickly, except the best one
                if jsonable(case) != state["best"]:
                    return
            if state["first_fail_t"] is None and time.time() - t_start > budget_s:
                state["stopped"] += 1
                return
            try:
                self.evaluate(case, run_case)
            except Violation as v:
                if state["first_fail_t"] is None:
                    state["first_fail_t"] = time.time()
                state["best"], state["best_v"] = jsonable(case), v
                raise

        test = given(strategy)(body)
        test = settings(max_examples=max_examples, database=None, deadline=None, derandomize=False,
                        report_multiple_bugs=False, print_blob=False,
                        suppress_health_check=list(HealthCheck),
                        phases=[Phase.generate, Phase.shrink])(test)
        test = seed(self.hseed(name))(test)
        try:
            test()
        except Violation:
            pass
        except hypothesis.errors.HypothesisException as e:
            if state["best"] is None:
                raise HarnessError(f"hypothesis error in {name}: {type(e).__name__}: {e}")
        except BaseException as e:  # ExceptionGroup from hypothesis etc.
            if state["best"] is None:
                raise
        if state["stopped"]:
            self.labels[f"budget_stop:{name}"] += state["stopped"]
        if state["best"] is not None:
            v = state["best_v"]
            self.failures.append({"kind": v.kind, "detail": v.detail, "case": state["best"]})
            return False
        return True

    def explore_machine(self, name, make_machine, max_examples, steps=40, shrink_s=None, budget_s=None):
        """Drive a hypothesis RuleBasedStateMachine.  `make_machine(ctx, state)` returns the machine class;
        the machine records its history in `state["hist"]` and calls `state["on_fail"](violation)` itself
        (through Ctx.machine_step).  The shortest failing history becomes the replay file."""
        import hypothesis
        from hypothesis import settings, HealthCheck, Phase, seed
        from hypothesis.stateful import run_state_machine_as_test
        if shrink_s is None:
            shrink_s = 30 if self.tier == "quick" else 240
        if budget_s is None:
            budget_s = float(os.environ.get("VERIF_BUDGET_S", 150 if self.tier == "quick" else 6000))
        state = {"best": None, "best_v": None, "first_fail_t": None, "t_start": time.time(), "shrink_s": shrink_s,
                 "budget_s": budget_s, "name": name}
        Machine = make_machine(self, state)
        st_ = settings(max_examples=max_examples, stateful_step_count=steps, database=None, deadline=None,
                       derandomize=False, report_multiple_bugs=False, print_blob=False,
                       suppress_health_check=list(HealthCheck), phases=[Phase.generate, Phase.shrink])
        try:
            run_state_machine_as_test(seed(self.hseed(name))(Machine), settings=st_)
        except Violation:
            pass
        except hypothesis.errors.HypothesisException as e:
            if state["best"] is None:
                raise HarnessError(f"hypothesis error in {name}: {type(e).__name__}: {e}")
        except BaseException:
            if state["best"] is None:
                raise
        if state["best"] is not None:
            v = state["best_v"]
            self.failures.append({"kind": v.kind, "detail": v.detail, "case": state["best"]})
            return False
        return True

    def machine_active(self, state):
        """False once the shrink budget (after a first failure) or the run budget is used up: the machine
        then turns its rules into no-ops so that hypothesis finishes quickly."""
        now = time.time()
        if state["first_fail_t"] is not None:
            return now - state["first_fail_t"] <= state["shrink_s"]
        return now - state["t_start"] <= state["budget_s"]

    def machine_failed(self, state, case, v):
        kid = self.known.match(self.open_known, self.prop, case, v)
        if kid is not None:
            self.known_hits[kid] += 1
            return False
        if state["first_fail_t"] is None:
            state["first_fail_t"] = time.time()
        if state["best"] is None or len(json.dumps(case)) <= len(json.dumps(state["best"])):
            state["best"], state["best_v"] = jsonable(case), v
        return True

    def fail(self, case, v):
        """Record a failure found outside hypothesis (enumerations)."""
        kid = self.known.match(self.open_known, self.prop, case, v)
        if kid is not None:
            self.known_hits[kid] += 1
            return
        self.failures.append({"kind": v.kind, "detail": v.detail, "case": jsonable(case)})

    def result(self):
        return {
            "shard": self.shard, "evaluations": self.evaluations, "sigs": sorted(self.sigs),
            "samples": self.samples, "labels": dict(self.labels), "known_hits": dict(self.known_hits),
            "failures": self.failures, "extra": jsonable(self.extra), "exhaustive": self.exhaustive,
            "env_trouble": self.env_trouble[:3],
            "wall_s": time.time() - self.t0,
        }


def corpus_files(prop):
    d = os.path.join(env.VERIF_DIR, "corpus", prop)
    if not os.path.isdir(d):
        return []
    return [os.path.join(d, f) for f in sorted(os.listdir(d)) if f.endswith(".json")]


def run_corpus(ctx, mod):
    """Regression tier: the shrunk failing cases of every repaired finding and of every seeded change
    that a check caught are kept under corpus/<prop>/ and re-run first, without hypothesis.  They ran
    into a defect once; on a tree where the property holds every one of them passes."""
    if os.environ.get("VERIF_NO_CORPUS"):
        return
    paths = corpus_files(ctx.prop)
    n = 0
    for i, path in enumerate(paths):
        if i % ctx.nshards != ctx.shard:
            continue
        rec = json.load(open(path))
        case = rec["case"] if "case" in rec else rec
        n += 1
        ctx.mark_current(case)
        try:
            try:
                mod.replay(case, ctx)
            except Violation:
                raise
            except Exception as e:
                v = library_exception(e)
                if v is None:
                    raise HarnessError(f"corpus case {path}: {traceback.format_exc()}")
                raise v
        except Violation as v:
            kid = ctx.known.match(ctx.open_known, ctx.prop, case, v)
            if kid is not None:
                ctx.known_hits[kid] += 1
                continue
            ctx.failures.append({"kind": v.kind, "detail": f"[corpus {os.path.basename(path)}] " + v.detail, "case": jsonable(case)})
    ctx.extra["corpus_cases_replayed"] = n
    ctx.labels["corpus-replayed"] += n


def prop_module(prop):
    return importlib.import_module(f"vp.props.{prop.lower()}")


# ------------------------------------------------------------------------------------------------
# shard entry point (child process)
def shard_main(argv):
    prop, tier, seed, shard, nshards, work, out = argv
    seed, shard, nshards = int(seed), int(shard), int(nshards)
    # every conversion leaves the library's two worker threads blocked for ever; a thorough shard runs
    # thousands of conversions, and with the default 8 MiB stacks their address space alone stops the
    # machine from starting processes.  Small stacks keep the footprint of those leftovers negligible.
    import threading
    threading.stack_size(512 * 1024)
    env.silence_warnings()
    env.assert_code_under_test()
    ctx = Ctx(prop, tier, seed, shard, nshards, work)
    mod = prop_module(prop)
    status = "ok"
    err = None
    try:
        with env.quiet():
            run_corpus(ctx, mod)
            mod.shard_main(ctx)
    except HarnessError as e:
        status, err = "harness_error", str(e)
    except Exception:
        status, err = "harness_error", traceback.format_exc()
    res = ctx.result()
    res["status"], res["error"] = status, err
    tmp = out + ".tmp"
    with open(tmp, "w") as f:
        json.dump(jsonable(res), f)
    os.replace(tmp, out)
    shutil.rmtree(work, ignore_errors=True)
    # daemon threads leaked by the library's writer pipeline must not block exit
    sys.stdout.flush()
    os._exit(0)


# ------------------------------------------------------------------------------------------------
# parent: run all shards, aggregate, write evidence
def bucket_name(f):
    s = f["kind"]
    safe = "".join(c if c.isalnum() or c in "-_" else "_" for c in s)[:60]
    return safe


def write_replay(prop, f):
    d = os.path.join(os.environ.get("VERIF_REPLAY_DIR") or os.path.join(env.VERIF_DIR, "replays"), prop)
    os.makedirs(d, exist_ok=True)
    path = os.path.join(d, bucket_name(f) + ".json")
    with open(path, "w") as fh:
        json.dump({"property": prop, "kind": f["kind"], "detail": f["detail"], "case": f["case"]}, fh, indent=1)
    return path


def run_property(prop, tier, seed):
    t0 = time.time()
    mod = prop_module(prop)
    meta = mod.META
    nshards = int(meta.get("shards", N_SHARDS))
    root = env.scratch_root()
    try:
        shadow = env.make_shadow_dist(root)
        cenv = env.child_env(shadow)
        procs = []
        for i in range(nshards):
            work = os.path.join(root, f"s{i}")
            out = os.path.join(root, f"out{i}.json")
            log = open(os.path.join(root, f"log{i}.txt"), "w")
            p = subprocess.Popen([sys.executable, "-m", "vp.shard", prop, tier, str(seed), str(i), str(nshards),
                                  work, out], env=cenv, stdout=log, stderr=subprocess.STDOUT, cwd=env.VERIF_DIR)
            procs.append((p, work, out, log))
        hard = float(os.environ.get("VERIF_HARD_TIMEOUT_S", 900 if tier == "quick" else 4 * 3600))
        results, harness_errors, failures = [], [], []
        for i, (p, work, out, log) in enumerate(procs):
            remaining = max(1.0, hard - (time.time() - t0))
            try:
                rc = p.wait(timeout=remaining)
            except subprocess.TimeoutExpired:
                p.kill()
                p.wait()
                cur = os.path.join(work, "current_case.json")
                where = ""
                if os.path.exists(cur):
                    # keep the case that was running, so that the stall can be looked into (it is no verdict)
                    try:
                        rd = os.environ.get("VERIF_REPLAY_DIR") or os.path.join(env.VERIF_DIR, "replays")
                        os.makedirs(os.path.join(rd, prop), exist_ok=True)
                        dst = os.path.join(rd, prop, f"stalled_shard{i}.json")
                        json.dump({"property": prop, "kind": "stalled (no verdict)", "case": json.load(open(cur))}, open(dst, "w"), indent=1)
                        where = f"; the case that was running: {dst}"
                    except Exception:
                        pass
                harness_errors.append(f"shard {i}: timed out after {hard}s (inconclusive){where}")
                continue
            finally:
                log.close()
            if os.path.exists(out):
                r = json.load(open(out))
                results.append(r)
                if r["status"] != "ok":
                    harness_errors.append(f"shard {i}: {r['error']}")
                if r.get("env_trouble"):
                    harness_errors.append(f"shard {i}: environment trouble (inconclusive, not a verdict): {r['env_trouble'][0]}")
            else:
                # interpreter died: attribute to the case that was running
                cur = os.path.join(work, "current_case.json")
                logtxt = open(os.path.join(root, f"log{i}.txt")).read()[-1500:]
                if rc < 0 and os.path.exists(cur):
                    case = json.load(open(cur))
                    f = {"kind": f"interpreter-crash-signal{-rc}", "detail": signal.Signals(-rc).name, "case": case}
                    from . import known
                    kid = known.match(open_known_for(prop), prop, case, Violation(f["kind"], f["detail"]))
                    if kid is None:
                        failures.append(f)
                    else:
                        results.append({"shard": i, "evaluations": 0, "sigs": [], "samples": [], "labels": {},
                                        "known_hits": {kid: 1}, "failures": [], "extra": {}, "exhaustive": None,
                                        "wall_s": 0})
                else:
                    harness_errors.append(f"shard {i}: exit {rc} without result\n{logtxt}")
        # aggregate
        sigs, samples, labels, known_hits, extra = set(), [], collections.Counter(), collections.Counter(), {}
        evaluations = 0
        exhaustive = []
        for r in results:
            evaluations += r["evaluations"]
            sigs.update(r["sigs"])
            for s in r["samples"]:
                if len(samples) < 12:
                    samples.append(s)
            labels.update(r["labels"])
            known_hits.update(r["known_hits"])
            failures.extend(r["failures"])
            for k, v in (r.get("extra") or {}).items():
                if isinstance(v, (int, float)) and not isinstance(v, bool):
                    extra[k] = extra.get(k, 0) + v
                else:
                    extra.setdefault(k, v)
            if r.get("exhaustive") is not None:
                exhaustive.append(r["exhaustive"])
        # one VIOLATION line per bucket
        buckets = {}
        for f in failures:
            b = bucket_name(f)
            if b not in buckets or len(json.dumps(f["case"])) < len(json.dumps(buckets[b]["case"])):
                buckets[b] = f
        lines = []
        for b, f in sorted(buckets.items()):
            path = write_replay(prop, f)
            lines.append(f"VIOLATION property={prop} replay={path}")
            print(f"  [{prop}] {f['kind']}: {f['detail'][:400]}")
        known = {k["id"]: k for k in load_known()}
        for kid, n in sorted(known_hits.items()):
            print(f"KNOWN-FINDING: property={prop} {kid}: {known[kid]['what']} (hit by {n} generated cases)")
        ev = {
            "property_id": prop, "tier": tier, "seed": seed, "level": meta["level"],
            "coverage": {
                "evaluations": evaluations,
                "distinct_nontrivial": len(sigs),
                "rule": meta["rule"],
                "samples": samples,
                "labels": dict(sorted(labels.items(), key=lambda kv: -kv[1])[:80]),
                "excluded_known": int(sum(known_hits.values())),
                "known_findings_hit": dict(known_hits),
                "shards": nshards,
                **({"exhaustive": bool(exhaustive) and all(exhaustive) and meta.get("exhaustive_whole", False)}
                   if meta.get("exhaustive_whole") else {}),
                **extra,
            },
            "assumptions": meta["assumptions"],
            "wall_s": round(time.time() - t0, 2),
            "violations": len(buckets),
        }
        if harness_errors:
            ev["coverage"]["harness_errors"] = harness_errors[:5]
        # mutant / sensitivity runs redirect their evidence so that the committed files stay those of /repo
        evdir = os.environ.get("VERIF_EVIDENCE_DIR") or os.path.join(env.VERIF_DIR, "evidence")
        os.makedirs(evdir, exist_ok=True)
        with open(os.path.join(evdir, f"{prop}.json"), "w") as fh:
            json.dump(jsonable(ev), fh, indent=1)
        for l in lines:
            print(l)
        print(f"[{prop}] tier={tier} seed={seed} evaluations={evaluations} distinct_nontrivial={len(sigs)} "
              f"known_excluded={sum(known_hits.values())} violations={len(buckets)} wall={time.time()-t0:.1f}s")
        if lines:
            return 1
        if harness_errors:
            for h in harness_errors[:5]:
                print("HARNESS-ERROR:", h, file=sys.stderr)
            return 2
        if evaluations < 1 or len(sigs) < 2:
            print("HARNESS-ERROR: vacuous run", file=sys.stderr)
            return 2
        return 0
    finally:
        shutil.rmtree(root, ignore_errors=True)


def run_replay(prop, path):
    """Re-run one saved case without hypothesis, in a child with the right environment."""
    root = env.scratch_root()
    try:
        shadow = env.make_shadow_dist(root)
        cenv = env.child_env(shadow)
        p = subprocess.run([sys.executable, "-m", "vp.shard", "--replay", prop, os.path.abspath(path),
                            os.path.join(root, "w")], env=cenv, cwd=env.VERIF_DIR)
        if p.returncode < 0:
            print(f"VIOLATION property={prop} replay={path}")
            print(f"  interpreter died with signal {-p.returncode}")
            return 1
        return p.returncode
    finally:
        shutil.rmtree(root, ignore_errors=True)


def replay_main(argv):
    prop, path, work = argv
    env.silence_warnings()
    env.assert_code_under_test()
    rec = json.load(open(path))
    case = rec["case"] if "case" in rec else rec
    ctx = Ctx(prop, "quick", 0, 0, 1, work)
    mod = prop_module(prop)
    try:
        with env.quiet():
            mod.replay(case, ctx)
    except Violation as v:
        kid = ctx.known.match(ctx.open_known, prop, case, v)
        if kid:
            print(f"KNOWN-FINDING: property={prop} {kid}")
            sys.stdout.flush()
            os._exit(0)
        print(f"VIOLATION property={prop} replay={path}")
        print(f"  {v.kind}: {v.detail}")
        sys.stdout.flush()
        os._exit(1)
    except Exception:
        traceback.print_exc()
        sys.stdout.flush()
        os._exit(2)
    print(f"replay passed: property={prop} {path}")
    sys.stdout.flush()
    os._exit(0)

import sys
from vp import core

if __name__ == "__main__":
    if sys.argv[1] == "--replay":
        core.replay_main(sys.argv[2:])
    else:
        core.shard_main(sys.argv[1:])

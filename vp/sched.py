"""Controlled scheduler for the writer pipeline.  The library's `Queue`, `Thread` and output file are
replaced by versions under which exactly one thread runs at a time; every queue operation, thread
start, file write and flush is a scheduling point at which the next thread is chosen among those
whose pending operation is enabled.  Choices come from a list of integers (a schedule is a value)."""
import collections
import queue as _queue
import threading


class Deadlock(Exception):
    pass


class TooManySteps(Exception):
    pass


class Kill(SystemExit):
    pass


class Sched:
    def __init__(self, choices, max_steps=100000, policy="choices", timeouts=3):
        # policy "choices": the drawn list decides; "downstream": always the runnable thread furthest down the
        # pipeline (writer before compressor before producer), i.e. the strictly sequential execution in which
        # every item is carried through to the file before the next one is produced
        self.policy = policy
        self.timeouts_left = timeouts   # how many timed waits may still expire in this run
        self.choices = list(choices)
        self.ci = 0
        self.threads = {}      # name -> state dict
        self.trace = []        # (thread, label)
        self.branching = []    # number of runnable threads at each scheduling point
        self.names = {threading.current_thread(): "main"}
        self.killed = False
        self.deadlock = None
        self.thread_errors = []
        self.max_steps = max_steps
        self.nthreads = 0
        self.returned = False  # set by the harness when the conversion call has returned

    def name(self):
        return self.names[threading.current_thread()]

    def register(self, th):
        self.nthreads += 1
        self.names[th] = "t%d" % self.nthreads

    def _state(self, me):
        return self.threads.setdefault(me, {"sem": threading.Semaphore(0), "pending": False})

    def runnable(self):
        return [n for n in sorted(self.threads) if self.threads[n]["pending"] and self.threads[n]["enabled"]()]

    def op(self, label, enabled=lambda: True):
        """Called by a managed thread before an atomic operation; returns when it may be performed."""
        me = self.name()
        if self.killed and me != "main":
            raise Kill()
        st = self._state(me)
        st["enabled"], st["label"], st["pending"] = enabled, label, True
        self._dispatch()
        st["sem"].acquire()
        if self.killed and me != "main":
            raise Kill()
        if me == "main" and self.deadlock is not None and not st["enabled"]():
            raise Deadlock(str(self.deadlock))
        st["pending"] = False
        self.trace.append((me, label))
        if len(self.trace) > self.max_steps:
            raise TooManySteps(f"{len(self.trace)} scheduling points")

    def _dispatch(self):
        run = self.runnable()
        if not run:
            # nobody can move: deadlock.  Wake main so that it can report it.
            self.deadlock = [(n, self.threads[n].get("label")) for n in sorted(self.threads) if self.threads[n]["pending"]]
            if "main" in self.threads:
                self.threads["main"]["sem"].release()
            return
        self.branching.append(len(run))
        if self.policy == "downstream":
            self.threads[run[-1]]["sem"].release()
            return
        c = self.choices[self.ci] if self.ci < len(self.choices) else 0
        self.ci += 1
        self.threads[run[c % len(run)]]["sem"].release()

    def others_pending_enabled(self):
        return [(n, self.threads[n]["label"]) for n in self.runnable() if n != "main"]

    def finish(self):
        self.killed = True
        for n, st in self.threads.items():
            if n != "main":
                st["sem"].release()


def make_patches(S, capacity=None):
    class SThread(threading.Thread):
        def __init__(self, *a, **k):
            super().__init__(*a, **k)
            S.register(self)

        def start(self):
            self._ready = threading.Event()
            super().start()
            self._ready.wait()
            S.trace.append((S.name(), ("start", S.names[self])))

        def run(self):
            me = S.name()
            st = S._state(me)
            st["enabled"], st["label"], st["pending"] = (lambda: True), "begin", True
            self._ready.set()
            st["sem"].acquire()
            if S.killed:
                return
            st["pending"] = False
            S.trace.append((me, "begin"))
            try:
                super().run()
            except Kill:
                return
            except BaseException as e:
                # a worker that dies with an exception leaves its queue unserved and nobody is told: note it and hand
                # control on, so that the others run into the consequence (a deadlock the main thread reports)
                S.thread_errors.append((me, f"{type(e).__name__}: {e}"))
            # the thread's function returned (a worker that retires): hand control on, or nobody would ever run
            st["pending"] = False
            S.trace.append((me, "exit"))
            if not S.killed:
                S._dispatch()

    class SQueue:
        count = [0]

        def __init__(self, maxsize=0):
            if capacity is not None:
                maxsize = capacity if maxsize <= 0 else min(maxsize, capacity)
            self.maxsize = maxsize
            self.items = collections.deque()
            self.unfinished = 0
            SQueue.count[0] += 1
            self.qn = "q%d" % SQueue.count[0]
            self.max_len = 0

        # the whole queue.Queue interface, so that a pipeline written against any part of it runs under
        # the scheduler; every operation is one scheduling point (queue.Queue is linearisable).
        # A wait with a timeout may expire whenever the scheduler runs the waiting thread while the wait cannot be
        # satisfied (any delay of the other threads is a legal schedule); at most Sched.timeouts of them expire
        # per run, after which timed waits simply block, so that a polling loop cannot spin for ever.
        def _timed(self, timeout):
            return timeout is not None and S.timeouts_left > 0

        def put(self, item, block=True, timeout=None):
            if block and self._timed(timeout):
                S.op(("put?", self.qn))
                if 0 < self.maxsize <= len(self.items):
                    S.timeouts_left -= 1
                    raise _queue.Full
            elif block:
                S.op(("put", self.qn), lambda: self.maxsize <= 0 or len(self.items) < self.maxsize)
            else:
                S.op(("put_nowait", self.qn))
                if 0 < self.maxsize <= len(self.items):
                    raise _queue.Full
            self.items.append(item)
            self.unfinished += 1
            self.max_len = max(self.max_len, len(self.items))

        def get(self, block=True, timeout=None):
            if block and self._timed(timeout):
                S.op(("get?", self.qn))
                if not self.items:
                    S.timeouts_left -= 1
                    raise _queue.Empty
            elif block:
                S.op(("get", self.qn), lambda: len(self.items) > 0)
            else:
                S.op(("get_nowait", self.qn))
                if not self.items:
                    raise _queue.Empty
            return self.items.popleft()

        def put_nowait(self, item):
            return self.put(item, block=False)

        def get_nowait(self):
            return self.get(block=False)

        def qsize(self):
            S.op(("qsize", self.qn))
            return len(self.items)

        def empty(self):
            S.op(("empty", self.qn))
            return not self.items

        def full(self):
            S.op(("full", self.qn))
            return 0 < self.maxsize <= len(self.items)

        def task_done(self):
            S.op(("task_done", self.qn))
            if self.unfinished <= 0:
                raise ValueError("task_done() called too many times")
            self.unfinished -= 1

        def join(self):
            S.op(("join", self.qn), lambda: self.unfinished == 0)

    SQueue.count[0] = 0
    return SThread, SQueue


class SFile:
    """Output file under the scheduler: writes and flushes are scheduling points and are logged."""
    def __init__(self, S, f, log):
        self.S, self.f, self.log = S, f, log
        self.name = f.name

    def write(self, b):
        self.S.op(("write", len(b)))
        pos = self.f.tell()
        self.log.append((self.S.name(), pos, len(b), self.S.returned))
        return self.f.write(b)

    def seek(self, *a):
        return self.f.seek(*a)

    def tell(self):
        return self.f.tell()

    def flush(self):
        self.S.op(("flush",))
        return self.f.flush()

    def close(self):
        self.f.close()

    def __enter__(self):
        return self

    def __exit__(self, *a):
        self.f.close()

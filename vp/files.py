"""Prepared SGZ files for the reader-side checks, built by the R-spec writer (independent of the
library's writer) or taken from the repository's fixtures, together with the independent truth."""
import os
import numpy as np
from hypothesis import strategies as st

from . import codec, env, gen, spec

FIXTURES_3D = ["small_025bit.sgz", "small_05bit.sgz", "small_1bit.sgz", "small_2bit.sgz", "small_2bit-64x64.sgz",
               "small_4bit.sgz", "small_8bit.sgz", "small_8bit-8x8.sgz", "small_v0.0.1.sgz", "small-dec_8bit.sgz",
               "small-irregular.sgz", "small_hole.sgz"]
FIXTURES_2D = ["small-2d.sgz"]
VERSIONS = ["0.0.0.dev", "0.1.3", "0.1.6", "0.1.7", "0.2.1", "0.2.2.dev", "0.2.8", "1.0.0"]
# stored-array candidates (field codes) for generated header tables
ARRAY_FIELDS = [1, 5, 9, 21, 25, 73, 77, 181, 185, 189, 193]


class Truth:
    """What a file holds according to the independent reader."""
    def __init__(self, raw):
        self.raw = raw
        self.s = s = spec.SgzSpec(raw)
        self.is_2d = s.is_2d
        self.V = s.volume()              # 3D: (n_il, n_xl, n_s) grid volume; 2D: (n_traces, n_s)
        self.Vpad = s.volume(padded=True)
        self.n_s = s.n_samples
        self.samples = s.samples()
        if s.is_2d:
            self.n_tr = s.tracecount
            self.pop = np.arange(self.n_tr)
        else:
            self.n_il, self.n_xl = s.n_il, s.n_xl
            self.ilines, self.xlines = s.ilines(), s.xlines()
            try:
                self.pop = s.population()
            except Exception:
                self.pop = np.arange(s.n_il * s.n_xl)
            self.n_tr = len(self.pop)
        self.structured = (not s.is_2d) and self.n_tr == s.n_il * s.n_xl
        self.cols = s.header_columns()
        self.owners = s.owners()

    def trace(self, i):
        if self.is_2d:
            return self.V[i]
        return self.V.reshape(-1, self.n_s)[int(self.pop[i])]

    def header(self, i):
        return self.s.trace_header(i, self.cols, self.pop)


def describe(desc):
    return {k: desc[k] for k in desc if k not in ("values",)}


def build(desc, d, name="f.sgz"):
    """Materialise a file descriptor.  Returns (path, Truth)."""
    if desc["kind"] == "fixture":
        path = os.path.join(env.REPO, "test_data", desc["name"])
        raw = open(path, "rb").read()
        return path, Truth(raw)
    rate, bs = desc["rate"], tuple(desc["blockshape"])
    shape = tuple(desc["shape"])
    data = gen.make_values(shape, desc["values"]["kind"], desc["values"]["vseed"])
    ver = spec.parse_version(desc.get("version", "0.2.8"))
    rng = np.random.Generator(np.random.PCG64(desc["values"]["vseed"] + 17))
    kw = {}
    if len(shape) == 3:
        n_il, n_xl, n_s = shape
        il = gen.axis_values(*desc.get("il", [0, 1]), n_il)
        xl = gen.axis_values(*desc.get("xl", [0, 1]), n_xl)
        grid = n_il * n_xl
        arrays = {}
        fields = desc.get("arrays", [189, 193])
        holes = desc.get("holes", [])
        mask = np.ones(grid, dtype=bool)
        mask[[h for h in holes if h < grid]] = False
        if not mask.all():
            data = data.copy()
            data.reshape(grid, n_s)[~mask] = 0
        for f in fields:
            if f == 189:
                a = np.repeat(il, n_xl)
            elif f == 193:
                a = np.tile(xl, n_il)
            else:
                a = rng.integers(-2 ** 31, 2 ** 31 - 1, grid)
            arrays[f] = np.where(mask, a, 0)
        kw = dict(ilines=il, xlines=xl, arrays=arrays, tracecount=int(mask.sum()),
                  pad="zero" if not mask.all() else "edge")
        consts = {115: n_s, 117: desc.get("dz_us", 4000), 71: int(rng.integers(-5, 5))}
        dups = {}
        for f, tgt in desc.get("dups", []):
            if tgt in arrays and f not in arrays:
                dups[f] = tgt
        kw["constants"] = {k: v for k, v in consts.items() if k not in arrays and k not in dups}
        kw["dups"] = dups
    else:
        n_tr, n_s = shape
        fields = desc.get("arrays", [1])
        arrays = {f: (np.arange(1, n_tr + 1) if f == 1 else rng.integers(-2 ** 31, 2 ** 31 - 1, n_tr)) for f in fields}
        kw = dict(arrays=arrays, constants={115: n_s, 117: desc.get("dz_us", 4000)})
    old_style = desc.get("version", "0.2.8").startswith("0.0.")
    raw = spec.write_sgz(data, rate, bs, version=ver, z0=desc.get("z0", 0), dz_us=desc.get("dz_us", 4000),
                         zero_blockshape=old_style and bs[:2] == (4, 4) and rate >= 1 and desc.get("zero_bs", True),
                         pad_last_array=desc.get("pad_last", True), f64_axis=desc.get("f64"), **kw)
    path = os.path.join(d, name)
    with open(path, "wb") as f:
        f.write(raw)
    return path, Truth(raw)


LAYOUT_4x4 = [s for s in gen.SETTINGS_3D if s[1][:2] == (4, 4)]
LAYOUT_ZS = [s for s in gen.SETTINGS_3D if s[1][2] == 4 and s[1][:2] != (4, 4)]
LAYOUT_GEN = [s for s in gen.SETTINGS_3D if s[1][2] != 4 and s[1][:2] != (4, 4)]


@st.composite
def spec_file_3d(draw, irregular=None, max_voxels=150_000, versions=VERSIONS, layouts=("4x4", "zs", "gen")):
    fam = draw(st.sampled_from(list(layouts)))
    rate, bs = draw(st.sampled_from({"4x4": LAYOUT_4x4, "zs": LAYOUT_ZS, "gen": LAYOUT_GEN}[fam]))
    shape = draw(gen.shape3d(bs, max_voxels=max_voxels, max_traces=6000))
    version = draw(st.sampled_from(versions))
    n_il, n_xl, n_s = shape
    desc = {"kind": "spec", "family": fam, "rate": rate, "blockshape": list(bs), "shape": list(shape),
            "version": version, "values": draw(gen.values_spec),
            "il": list(draw(gen.line_axis(n_il))), "xl": list(draw(gen.line_axis(n_xl))),
            "z0": draw(st.sampled_from([0, 0, 100, -24, 8])),
            "dz_us": draw(st.sampled_from([4000, 2000, 1000, 3000, 500, 250, 125, 333])),
            }
    if version in ("0.0.0.dev", "0.1.3", "0.1.6"):
        desc["dz_us"] = draw(st.sampled_from([4000, 2000, 1000]))  # whole milliseconds before 0.1.7
    elif draw(st.integers(0, 5)) == 0:
        # the float64 first-sample / interval fields (bytes 84-99), as the ZGY route fills them: they take
        # precedence over the int32 fields, which then hold the truncated values
        desc["f64"] = [desc["z0"] + draw(st.sampled_from([0.0, 0.5, 0.25, 0.001])), float(desc["dz_us"]) + draw(st.sampled_from([0.0, 0.0, 0.5]))]
    extra = draw(st.lists(st.sampled_from([f for f in ARRAY_FIELDS if f not in (189, 193)]), max_size=3, unique=True))
    desc["arrays"] = sorted([189, 193] + extra)
    # writers only ever point a duplicate row at an *earlier* row of the table
    # (a duplicate may sit between two owners in table order, e.g. 185 -> 181 with 189 stored as well)
    desc["dups"] = [list(p) for p in draw(st.lists(st.sampled_from([(197, 189), (201, 189), (185, 181), (77, 73), (9, 5)]),
                                                    max_size=2, unique=True))]
    irr = draw(st.booleans()) if irregular is None else irregular
    if irr and spec.parse_version(version) > spec.V_0_2_1:
        grid = n_il * n_xl
        k = draw(st.integers(1, max(1, min(6, grid - 2))))
        desc["holes"] = sorted(draw(st.lists(st.integers(0, grid - 1), min_size=k, max_size=k, unique=True)))
        # the library's population mask is "stored inline number != 0": keep line numbers non-zero
        il0, ils = desc["il"]
        if any(il0 + ils * i == 0 for i in range(n_il)):
            desc["il"] = [abs(il0) + 1, abs(ils)]
    desc["pad_last"] = draw(st.booleans())
    return desc


@st.composite
def spec_file_2d(draw, max_voxels=120_000):
    rate, bs = draw(st.sampled_from([s for s in gen.SETTINGS_2D if s[0] >= 1]))
    n_tr = draw(gen.dim(bs[1], classes=["lt", "eq", "gt", "multi"]))
    n_s = draw(gen.dim(bs[2], classes=["lt", "eq", "gt", "multi"] if bs[2] * 3 * n_tr < max_voxels else ["lt", "eq", "gt"]))
    n_s = min(n_s, max(2, max_voxels // max(n_tr, 1)))
    extra = draw(st.lists(st.sampled_from([5, 9, 21, 73, 77]), max_size=2, unique=True))
    return {"kind": "spec", "family": "2d", "rate": rate, "blockshape": list(bs), "shape": [n_tr, n_s],
            "version": "0.2.8", "values": draw(gen.values_spec), "z0": draw(st.sampled_from([0, 100, -8])),
            "dz_us": draw(st.sampled_from([4000, 2000, 500])), "arrays": sorted([1] + extra),
            "pad_last": draw(st.booleans())}


def fixture_files(dim=3):
    return st.sampled_from([{"kind": "fixture", "name": n, "family": "fixture"} for n in (FIXTURES_3D if dim == 3 else FIXTURES_2D)])

"""Self-checks of the machinery (exit 2 on failure): the reference reader/writer/codec agree with each
other and with the repository's fixtures, independently of seismic_zfp's code."""
import glob
import os
import sys
import numpy as np

from vp import codec, env, gen, spec


def main():
    ok = True
    # 1. R-spec writer -> R-spec decoder (both decoders) == R-codec image
    for (rate, bs), shape in [((4, (4, 4, 512)), (5, 6, 513)), ((2, (64, 64, 4)), (65, 3, 9)),
                              ((8, (8, 8, 64)), (9, 17, 70)), ((0.25, (4, 4, 8192)), (3, 3, 5)),
                              ((16, (4, 4, 128)), (2, 2, 2)), ((1, (16, 16, 128)), (17, 15, 130))]:
        a = gen.make_values(shape, "gauss", 7)
        raw = spec.write_sgz(a, rate, bs)
        s = spec.SgzSpec(raw)
        want = codec.image(a, rate)
        for name, v in (("blocks", s.volume()), ("cells", s.volume_cells())):
            if not codec.bits_equal(v, want):
                print("SELF-CHECK FAILED: spec", name, rate, bs, shape, codec.first_diff(v, want))
                ok = False
        p = spec.validate(raw, {"n_il": shape[0], "rate": rate, "blockshape": bs})
        if p:
            print("SELF-CHECK FAILED: validator rejects reference file", p)
            ok = False
    a = gen.make_values((37, 50), "gauss", 3)
    raw = spec.write_sgz(a, 2, (1, 16, 1024))
    s = spec.SgzSpec(raw)
    for v in (s.volume(), s.volume_cells()):
        if not codec.bits_equal(v, codec.image(a, 2)):
            print("SELF-CHECK FAILED: 2D reference")
            ok = False
    # 2. fixtures of the repository: the spec decoder reproduces the SEG-Y within codec error
    import segyio
    td = os.path.join(env.REPO, "test_data")
    if os.path.isdir(td):
        src = np.array(segyio.tools.cube(os.path.join(td, "small.sgy")))
        n = 0
        for f in sorted(glob.glob(os.path.join(td, "small_*bit*.sgz"))) + [os.path.join(td, "small_v0.0.1.sgz")]:
            s = spec.SgzSpec(open(f, "rb").read())
            v = s.volume_cells()
            if v.shape != src.shape or not codec.bits_equal(v, s.volume()):
                print("SELF-CHECK FAILED: fixture", f)
                ok = False
            elif s.rate >= 4 and not np.allclose(v, src, rtol=0.2, atol=0.2):
                print("SELF-CHECK FAILED: fixture far from its source", f, float(np.abs(v - src).max()))
                ok = False
            n += 1
        print(f"self-check: {n} fixtures decoded from the specification alone")
    print("self-check:", "ok" if ok else "FAILED")
    sys.exit(0 if ok else 2)


if __name__ == "__main__":
    main()

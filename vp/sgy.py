"""SEG-Y authoring on top of segyio.create (R-segyio is a dependency, not the code under test)."""
import numpy as np
import segyio

from .spec import FIELDS, FIELD_WIDTH

TF = segyio.TraceField
IL, XL = 189, 193
# fields that define geometry / the sample axis for segyio and for the converter
STRUCTURAL = {189, 193, 37, 109, 115, 117}


def field_range(code):
    return (-2 ** 15, 2 ** 15 - 1) if FIELD_WIDTH[code] == 2 else (-2 ** 31, 2 ** 31 - 1)


def write_segy(path, traces, cols, dt_us, fmt=5, grid=None, ext_headers=0, text=None, bin_extra=None,
               ext_text=None, sorting=2):
    """traces: (n, ns) float32 in file order.  cols: dict field code -> int array (n) or int.
    grid: (ilines, xlines) for a regular inline-sorted cube (n == len(il)*len(xl)), else None."""
    traces = np.ascontiguousarray(traces, dtype=np.float32)
    if fmt == 1:
        # segyio's float -> IBM conversion of float32 denormals is not reproducible (two writes of the
        # same values give different bytes): IBM sources hold 0 or |x| >= 1e-30
        traces = np.where(np.abs(traces) < 1e-30, np.float32(0), traces).astype(np.float32)
    n, ns = traces.shape
    sp = segyio.spec()
    sp.format = fmt
    sp.samples = np.arange(ns, dtype=float) * (dt_us / 1000.0)
    sp.ext_headers = ext_headers
    if grid is not None:
        sp.ilines = np.asarray(grid[0])
        sp.xlines = np.asarray(grid[1])
        sp.sorting = sorting      # 2: inline sorted (traces of one inline are consecutive), 1: crossline sorted
        sp.offsets = [0]
    else:
        sp.tracecount = n
    colarr = {}
    for c, v in cols.items():
        a = np.asarray(v)
        colarr[int(c)] = np.broadcast_to(a, (n,)) if a.ndim == 0 else a
    with segyio.create(path, sp) as f:
        if text is not None:
            f.text[0] = text
        for e in range(ext_headers):
            f.text[e + 1] = (ext_text[e] if ext_text else (b"EXT%d" % e).ljust(3200))
        f.bin.update({segyio.BinField.Interval: int(dt_us), segyio.BinField.IntervalOriginal: int(dt_us),
                      segyio.BinField.Samples: ns, segyio.BinField.SamplesOriginal: ns})
        if bin_extra:
            f.bin.update({int(k): int(v) for k, v in bin_extra.items()})
        for t in range(n):
            f.header[t] = {c: int(a[t]) for c, a in colarr.items()}
            f.trace[t] = traces[t]


def base_cols(n, ns, dt_us, delay_ms=0):
    return {115: np.full(n, ns), 117: np.full(n, dt_us), 109: np.full(n, delay_ms)}


def regular_cols(ilines, xlines):
    il = np.repeat(np.asarray(ilines), len(xlines))
    xl = np.tile(np.asarray(xlines), len(ilines))
    return {IL: il, XL: xl}


def read_source(path, ignore_geometry=False):
    """Everything the oracles need from a SEG-Y, copied out of segyio's reusable buffers."""
    with segyio.open(path, mode="r", strict=False, ignore_geometry=ignore_geometry) as f:
        traces = np.stack([np.array(t, dtype=np.float32, copy=True) for t in f.trace])
        heads = [{int(k): int(v) for k, v in h.items()} for h in f.header]
        out = {"traces": traces, "headers": heads, "samples": np.array(f.samples, dtype=float),
               "tracecount": f.tracecount,
               "ilines": None if f.ilines is None else np.array(f.ilines),
               "xlines": None if f.xlines is None else np.array(f.xlines),
               "sorting": f.sorting, "format": int(f.bin[segyio.BinField.Format]),
               "ext_headers": int(f.ext_headers)}
    with open(path, "rb") as fh:
        out["file_header"] = fh.read(3600)
    return out


def inline_cube(path):
    """The cube as (inline, crossline, sample) whatever the trace sorting of the file (segyio.tools.cube
    returns it in file order: crossline-major for a crossline-sorted file)."""
    with segyio.open(path, mode="r", strict=True) as f:
        return np.stack([np.array(f.iline[int(i)], dtype=np.float32, copy=True) for i in f.ilines])

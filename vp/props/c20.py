"""C20 source-data hash identifies the source samples and nothing else."""
import hashlib
import os
import numpy as np
from hypothesis import strategies as st

from .. import conv, gen, sgy, sources
from ..core import Violation

META = {
    "level": "exploration",
    "rule": ("case = cube (shape built against the blockshape: <, =, >, several blocks per axis) or 2D section x valid "
             "setting x reader {segyio, reduced-I/O} x route {SEG-Y IBM/IEEE, NumPy} x header-detection mode; oracle: get_source_data_hash() == "
             "sha1(real float32 samples in trace order, little-endian) computed by the harness from what the source "
             "library returns; metamorphic: a second setting gives the same hash, one perturbed sample (first/last "
             "trace, last sample, next to padding, interior) gives a different one, re-blocking keeps it; non-trivial = "
             "n_traces (2D) or n_il (3D) not a multiple of the block dimension, or > 1 group; distinct = (dim kind, "
             "residue class, rate, blockshape, reader, route)"),
    "assumptions": [
        "SHA-1 over the float32 samples as segyio decodes them (IBM sources: the decoded float32 values)",
        "irregular sources are outside the quantifier and not asserted",
    ],
}


def sha(a):
    return hashlib.sha1(np.ascontiguousarray(a, dtype="<f4").tobytes()).hexdigest()


def get_hash(path):
    from seismic_zfp.read import SgzReader
    with SgzReader(path) as r:
        return r.get_source_data_hash()


@st.composite
def cases(draw):
    kind = draw(st.sampled_from(["segy3d", "segy3d", "numpy", "2d"]))
    c = {"kind": kind, "values": draw(gen.values_spec), "fmt": draw(st.sampled_from([1, 5])),
         "reader": draw(st.sampled_from(["segyio", "reduced"])), "pert": draw(st.sampled_from(["first", "last", "interior", "lastsample", "edge"])),
         "u": [draw(st.floats(0, 1, exclude_max=True)) for _ in range(3)], "reuse": draw(st.sampled_from([False, False, True])),
         "mode": draw(st.sampled_from(["strip", "heuristic", "thorough", "exhaustive"])),
         "mem": draw(st.sampled_from(gen.MEM_LAYOUTS))}
    if kind == "2d":
        s1 = draw(st.sampled_from([s for s in gen.SETTINGS_2D if s[0] >= 1]))
        s2 = draw(st.sampled_from([s for s in gen.SETTINGS_2D if s[0] >= 1]))
        n_tr = min(150, draw(gen.dim(s1[1][1])))
        ns = min(400, draw(gen.dim(s1[1][2], classes=["lt", "lt", "eq", "gt"])))
        c.update(shape=[n_tr, ns], variant=draw(st.sampled_from(["zero", "single_il", "single_xl"])))
    else:
        s1 = draw(st.sampled_from(gen.SETTINGS_3D))
        s2 = draw(st.sampled_from(gen.SETTINGS_3D))
        if draw(st.sampled_from([False, False, True])):
            s1 = (2, (4, 4, 1024))
        c["shape"] = list(draw(gen.shape3d(s1[1], max_voxels=150_000, max_traces=700, magnitudes="lines")))
        if draw(st.integers(0, 23)) == 17:
            # one count far beyond the others: more than 16 384 crosslines on two inlines, or traces of 4100 / 33 000
            # samples on a grid whose crossline count is no multiple of any block width
            c["shape"] = list(draw(st.sampled_from([(2, 16500, 8), (5, 6, 4100), (3, 5, 33000), (6, 7, 4097)] if kind == "numpy" else
                                                   [(5, 6, 4100), (3, 5, 33000), (6, 7, 4097)])))
            s1 = draw(st.sampled_from([(4, (4, 4, 512)), (8, (4, 16, 64)), (1, (4, 4, 2048))]))      # (layouts that keep the padded cube small)
            s2 = draw(st.sampled_from([(2, (64, 64, 4)), (16, (4, 4, 128)), (8, (8, 8, 64))]))
    c["s1"] = [s1[0], list(s1[1])]
    c["s2"] = [s2[0], list(s2[1])]
    if kind == "segy3d" and draw(st.integers(0, 3)) == 0:
        # an earlier conversion, in this process and with the same reader, of another survey stored under the same
        # file name in the other sample format (IBM <-> IEEE); half of these surveys have a dead first line, which
        # is all the reduced-I/O reader's self test looks at
        c["prior"] = draw(st.integers(0, 2 ** 16))
        if draw(st.booleans()):
            c["values"] = dict(c["values"], kind="deadedge")
    return c


def convert(case, data, out, setting, d, tag, earlier=()):
    rate, bs = setting[0], tuple(setting[1])
    if case["kind"] == "numpy":
        # (the hash is of the samples in trace order, whatever the memory layout of the array handed over)
        conv.numpy_convert(gen.as_layout(data, case.get("mem")), out, rate, bs, earlier=earlier)
        return data
    path = os.path.join(d, f"in{tag}.sgy")
    if case["kind"] == "2d":
        n, ns = data.shape
        cols = sgy.base_cols(n, ns, 4000, 0)
        grid = None
        if case["variant"] == "single_il":
            cols[189], cols[193] = np.full(n, 7), np.arange(1, n + 1)
            grid = ([7], list(range(1, n + 1)))
        elif case["variant"] == "single_xl":
            cols[189], cols[193] = np.arange(1, n + 1), np.full(n, 7)
            grid = (list(range(1, n + 1)), [7])
        sgy.write_segy(path, data, cols, 4000, fmt=case["fmt"], grid=grid)
        src = sgy.read_source(path, ignore_geometry=True)["traces"]
    else:
        n_il, n_xl, ns = data.shape
        cols = sgy.base_cols(n_il * n_xl, ns, 4000, 0)
        il, xl = list(range(1, n_il + 1)), list(range(1, n_xl + 1))
        cols.update(sgy.regular_cols(il, xl))
        if case.get("prior") is not None and tag == "a":
            if case["prior"] % 3 == 0 and n_il > 3 and n_xl > 3:
                # (a smaller survey: what is remembered about the file of that name must not size the next conversion)
                pil, pxl = il[:n_il - 2], xl[:n_xl - 1]
                pcols = sgy.base_cols(len(pil) * len(pxl), ns, 4000, 0)
                pcols.update(sgy.regular_cols(pil, pxl))
                pdata = gen.make_values((len(pil), len(pxl), ns), "gauss", case["prior"])
                sgy.write_segy(path, pdata.reshape(-1, ns), pcols, 4000, fmt=6 - case["fmt"], grid=(pil, pxl))
            else:
                pdata = gen.make_values(data.shape, "gauss", case["prior"])
                sgy.write_segy(path, pdata.reshape(-1, ns), cols, 4000, fmt=6 - case["fmt"], grid=(il, xl))
            pout = os.path.join(d, "prior.sgz")
            conv.segy_convert(path, pout, 4, (4, 4, -1), reduce_iops=(case["reader"] == "reduced"), header_detection="strip")
            if get_hash(pout) != sha(sgy.read_source(path)["traces"]):
                raise Violation("hash-not-sha1-of-source", "the survey converted first under this file name")
        # (after a prior survey of the same layout, half of the surveys carry an extended textual header: what was found
        # out about the first file of that layout must not be applied to this one)
        ext = 1 if (case.get("prior") is not None and case["prior"] % 2) else 0
        sgy.write_segy(path, data.reshape(-1, ns), cols, 4000, fmt=case["fmt"], grid=(il, xl), ext_headers=ext)
        src = sgy.read_source(path)["traces"]
    conv.segy_convert(path, out, rate, bs, reduce_iops=(case["reader"] == "reduced" and case["kind"] != "2d"),
                      header_detection=case.get("mode", "strip"), earlier=earlier)
    return src


def run_case(case, ctx):
    d = ctx.tmp()
    shape = tuple(case["shape"])
    data = gen.make_values(shape, case["values"]["kind"], case["values"]["vseed"])
    o1 = os.path.join(d, "a.sgz")
    src = convert(case, data, o1, case["s1"], d, "a")
    want = sha(src)
    h1 = get_hash(o1)
    if h1 != want:
        raise Violation("hash-not-sha1-of-source", f"{case['kind']} shape {shape} setting {case['s1']}: {h1} != {want}")
    o2 = os.path.join(d, "b.sgz")
    if case.get("reuse"):
        # one converter object writing several files: every one of them carries the hash of the source
        o2a = os.path.join(d, "b0.sgz")
        convert(case, data, o2, case["s2"], d, "b", earlier=[(o2a, case["s1"][0], tuple(case["s1"][1]))])
        if get_hash(o2a) != want:
            raise Violation("hash-not-sha1-of-source", f"first file of a reused converter: {get_hash(o2a)} != {want}")
    else:
        convert(case, data, o2, case["s2"], d, "b")
    h2 = get_hash(o2)
    if h2 != want:
        raise Violation("hash-depends-on-setting" + (":reused-converter" if case.get("reuse") else ""),
                        f"setting {case['s2']} gives {h2}, setting {case['s1']} gives {h1}")
    # one perturbed sample
    p = data.copy()
    flat = p.reshape(-1, shape[-1])
    nt = flat.shape[0]
    t = {"first": 0, "last": nt - 1, "interior": int(case["u"][0] * nt), "lastsample": int(case["u"][0] * nt),
         "edge": nt - 1}[case["pert"]]
    z = shape[-1] - 1 if case["pert"] in ("lastsample", "edge") else int(case["u"][1] * shape[-1])
    old = flat[t, z]
    flat[t, z] = np.float32(old * 0.5 + 1.0) if np.isfinite(old * 0.5 + 1.0) else np.float32(1.0)
    o3 = os.path.join(d, "c.sgz")
    src3 = convert(case, p, o3, case["s1"], d, "c")
    if not np.array_equal(src3.view(np.uint32), np.asarray(src).view(np.uint32)):
        h3 = get_hash(o3)
        if h3 == h1:
            raise Violation("hash-blind-to-sample", f"sample (trace {t}, {z}) changed, hash unchanged")
        if h3 != sha(src3):
            raise Violation("hash-not-sha1-of-source", f"perturbed: {h3} != {sha(src3)}")
    if case["kind"] != "2d" and case["s1"] == [2, [4, 4, 1024]]:
        from seismic_zfp.conversion import SgzConverter
        o4 = os.path.join(d, "adv.sgz")
        c = SgzConverter(o1)
        try:
            c.convert_to_adv_sgz(o4)
        finally:
            c.close()
        if get_hash(o4) != want:
            raise Violation("hash-changed-by-reblocking", f"{get_hash(o4)} != {want}")
    bs = case["s1"][1]
    k = 1 if case["kind"] == "2d" else 0
    n = shape[0]
    nontriv = n % bs[k] != 0 or n > bs[k]
    return {"sig": [case["kind"], gen.dim_class(n, bs[k]), n % 4, case["s1"], case["reader"], case["fmt"], case["pert"]] if nontriv else None,
            "labels": [case["kind"], "groups>1" if n > bs[k] else "one-group", case["pert"], "mode:" + case.get("mode", "strip")]
            + (["reused-converter"] if case.get("reuse") else []) + (["after-prior-conversion"] if case.get("prior") is not None else [])}


def shard_main(ctx):
    fixed = {11: ("numpy", [2, 16500, 8]), 12: ("segy3d", [5, 6, 4100]), 13: ("numpy", [3, 5, 33000])}
    if ctx.shard in fixed:
        # one count far beyond the others, every run: more than 16 384 crosslines per inline; traces of 4100 / 33 000 samples
        kind, shape = fixed[ctx.shard]
        case = {"kind": kind, "values": {"kind": "gauss", "vseed": 90 + ctx.shard}, "fmt": 5, "reader": "segyio", "pert": "last", "u": [0.7, 0.6, 0.5],
                "reuse": False, "mode": "strip", "mem": "C", "shape": shape, "s1": [4, [4, 4, 512]], "s2": [2, [64, 64, 4]]}
        try:
            ctx.evaluate(case, run_case)
        except Violation as v:
            ctx.failures.append({"kind": v.kind, "detail": v.detail, "case": case})
            return
    ctx.explore("hash", cases(), run_case, ctx.n(60, 1000))


def replay(case, ctx):
    run_case(case, ctx)

"""C01 write-then-read fidelity: read_volume() == ZFP fixed-rate image of the edge-extended source."""
import os
import numpy as np
from hypothesis import strategies as st

from .. import codec, conv, gen, sgy, sources, spec
from ..core import Violation

META = {
    "level": "exploration",
    "rule": ("cases = (route in numpy/segy/segy-reduced-iops/cli/generated zgy by API and CLI/generated vds/zgy+vds fixtures) x one of the 344 valid (rate, blockshape) "
             "settings in one of 20 spellings x cube shape built per axis as k*blockdim+r (classes <,=,>,multi-block) x "
             "value kind x drawn PRNG seed x SEG-Y format IBM/IEEE x 0-2 extended text headers x queue capacity x (one case in five) a converter object that has already written another file under another setting; "
             "non-trivial = some dimension not a multiple of 4, or >1 block on an axis, or non-default route/setting; "
             "distinct = signature (route, rate, blockshape, per-axis size class and residue mod 4, format, ext headers)"),
    "assumptions": [
        "libzfp (zfpy) is the trusted codec: the expected image is computed by the harness in one call on the whole edge-extended cube",
        "segyio is trusted for what a SEG-Y source contains (IBM sources: segyio's float32 view is the source)",
        "the library version is supplied as 0.2.8 through a shadow dist-info (the sandbox install reports an unparseable no-tag version)",
        "cells lying wholly in blockshape padding beyond the 4-aligned extent are not pinned by the statement and are not compared",
        "VDS route: generated files written with openvds in the channel layout SEGYImport produces (Amplitude, Trace, SEGYTraceHeader; ascending axes only, a VDS axis being min/max/count) plus the fixture; ZGY route: generated files written with pyzgy's writer (value kinds with a non-degenerate range, which openzgy's histogram needs) plus the fixtures",
    ],
}


def cell_bytes_check(raw, src, rate):
    """(3) every cell intersecting the real extent holds libzfp's encoding of the edge-extended cell."""
    s = spec.SgzSpec(raw)
    ext = codec.extend(src, 4, "edge")
    stream = codec.compress(ext, rate)
    cb = int(64 * rate) // 8
    n = [d // 4 for d in ext.shape]
    bs = s.blockshape
    nb = [s.padded[k] // bs[k] for k in range(3)]
    cpb = [bs[k] // 4 for k in range(3)]
    want = np.frombuffer(stream[:n[0] * n[1] * n[2] * cb], dtype=np.uint8).reshape(n[0], n[1], n[2], cb)
    data = np.frombuffer(raw[s.data_start:s.data_start + spec.BLOCK * s.n_diskblocks], dtype=np.uint8)
    if data.size != spec.BLOCK * nb[0] * nb[1] * nb[2]:
        raise Violation("data-section-size", f"{data.size} bytes for {nb} blocks")
    # file order: (bi, bx, bz, ci, cx, cz, byte) -> reorder to (bi, ci, bx, cx, bz, cz, byte)
    got = data.reshape(nb[0], nb[1], nb[2], cpb[0], cpb[1], cpb[2], cb).transpose(0, 3, 1, 4, 2, 5, 6)
    got = got.reshape(nb[0] * cpb[0], nb[1] * cpb[1], nb[2] * cpb[2], cb)[:n[0], :n[1], :n[2]]
    if not np.array_equal(got, want):
        bad = np.argwhere((got != want).any(axis=3))
        raise Violation("cell-bytes", f"{len(bad)} of {n[0]*n[1]*n[2]} real cells differ from libzfp's encoding; first cell {bad[0].tolist()}")


def check_output(out, src, rate, blockshape):
    from seismic_zfp.read import SgzReader
    want = codec.image(src, rate)
    with SgzReader(out) as r:
        if tuple(r.blockshape) != tuple(blockshape) or r.rate != rate:
            raise Violation("setting-not-honoured", f"file has rate {r.rate} blockshape {r.blockshape}, asked {rate} {blockshape}")
        got = r.read_volume()
    if not codec.bits_equal(got, want):
        raise Violation("read_volume-differs-from-codec-image", codec.first_diff(got, want))
    # the same volume assembled inline by inline and crossline by crossline, every result kept until the end
    # (an array handed out earlier must not change when the next line is read)
    if want.size > 20_000 or int(np.abs(want[0, 0, :4].view(np.uint32)).sum()) % 2:
        lines = False    # (cubes of up to 20 000 voxels, every other one, chosen by the data)
    else:
        lines = True
    with SgzReader(out) as r:
        if not lines:
            kept = keptx = None
            by_il = by_xl = want
        else:
            kept = [r.read_inline(i) for i in range(r.n_ilines)]
            by_il = np.stack(kept)
            keptx = [r.read_crossline(x) for x in range(r.n_xlines)]
            by_xl = np.stack(keptx, axis=1)
    if not codec.bits_equal(by_il, want):
        raise Violation("inline-by-inline-differs-from-codec-image", codec.first_diff(by_il, want))
    if not codec.bits_equal(by_xl, want):
        raise Violation("crossline-by-crossline-differs-from-codec-image", codec.first_diff(by_xl, want))
    raw = conv.read_bytes(out)
    s = spec.SgzSpec(raw)
    v = s.volume()
    if not codec.bits_equal(v, want):
        raise Violation("spec-decode-differs-from-codec-image", codec.first_diff(v, want))
    cell_bytes_check(raw, src, rate)


def signature(case):
    bs = case["setting"]["blockshape"]
    sh = case["shape"]
    return [case["check"], case.get("reader", ""), case["setting"]["rate"], bs,
            [gen.dim_class(n, b) for n, b in zip(sh, bs)], [n % 4 for n in sh], case.get("fmt", 0), case.get("ext", 0)]


def nontrivial(case):
    bs = case["setting"]["blockshape"]
    sh = case["shape"]
    return any(n % 4 for n in sh) or any(n > b for n, b in zip(sh, bs)) or case["check"] != "numpy" \
        or bs[:2] != [4, 4]


def build_segy(case, d, data):
    n_il, n_xl, ns = data.shape
    il0, ils = case.get("il", [1, 1])
    xl0, xls = case.get("xl", [1, 1])
    ilines = gen.axis_values(il0, ils, n_il)
    xlines = gen.axis_values(xl0, xls, n_xl)
    dt_us = case.get("dt_us", 4000)
    cols = sgy.base_cols(n_il * n_xl, ns, dt_us, case.get("delay", 0))
    path = os.path.join(d, "in.sgy")
    if case.get("sorting", 2) == 1:
        # the same regular cube stored crossline by crossline (segyio sorting 1)
        cols.update({sgy.IL: np.tile(np.asarray(ilines), n_xl), sgy.XL: np.repeat(np.asarray(xlines), n_il)})
        sgy.write_segy(path, np.ascontiguousarray(data.transpose(1, 0, 2)).reshape(n_il * n_xl, ns), cols, dt_us,
                       fmt=case.get("fmt", 5), grid=(ilines, xlines), ext_headers=case.get("ext", 0), sorting=1)
        return path
    cols.update(sgy.regular_cols(ilines, xlines))
    sgy.write_segy(path, data.reshape(n_il * n_xl, ns), cols, dt_us, fmt=case.get("fmt", 5),
                   grid=(ilines, xlines), ext_headers=case.get("ext", 0))
    return path


def run_case(case, ctx):
    if case["check"] in ("vds", "fixture"):
        sources.track_vds()
    try:
        return _run_case(case, ctx)
    finally:
        if case["check"] in ("vds", "fixture"):
            sources.close_leaked_vds()


def _run_case(case, ctx):
    d = ctx.tmp()
    shape = tuple(case["shape"])
    data = None if case["check"] == "fixture" else gen.make_values(shape, case["values"]["kind"], case["values"]["vseed"])
    setting = case["setting"]
    rate, bs = setting["rate"], tuple(setting["blockshape"])
    bpv, bsarg = gen.spelled_args(setting)
    out = os.path.join(d, "out.sgz")
    conv.leave_stale(out, repr(case["shape"]) + repr(case["values"]) + case["check"])
    route = case["check"]
    earlier = []
    if case.get("pre"):
        # the converter object writes another file first (different setting); both must be faithful
        pb, ps = gen.spelled_args(case["pre"])
        earlier = [(os.path.join(d, "pre.sgz"), pb, ps)]
    if route == "numpy":
        given = gen.as_layout(data, case.get("mem"))
        conv.numpy_convert(given, out, bpv, bsarg, earlier=earlier)
        src = data
    elif route in ("segy", "cli"):
        if case.get("prior") is not None:
            # an earlier conversion in this process of another survey of the same layout (no extended textual
            # headers) stored under the same file name, read with the same reader: nothing of it may survive
            pdata = gen.make_values(shape, "gauss", case["prior"])
            # (half of the time in the other sample format: IBM where the main survey is IEEE and vice versa)
            ppath = build_segy(dict(case, ext=0, fmt=(6 - case["fmt"]) if case["prior"] % 2 else case["fmt"]), d, pdata)
            pout = os.path.join(d, "prior.sgz")
            conv.segy_convert(ppath, pout, 4, (4, 4, -1), reduce_iops=(case["reader"] == "reduced"))
            import segyio
            check_output(pout, sgy.inline_cube(ppath), 4, (4, 4, 512))
        path = build_segy(case, d, data)
        import segyio
        src = sgy.inline_cube(path)
        if src.shape != shape:
            raise RuntimeError(f"harness: segyio cube {src.shape} != {shape}")
        if route == "segy":
            conv.segy_convert(path, out, bpv, bsarg, reduce_iops=(case["reader"] == "reduced"),
                              header_detection=case.get("mode", "heuristic"), queue=case.get("queue"), earlier=earlier)
        else:
            args = ["sgy2sgz", path, out, "--bits-per-voxel", bpv, "--blockshape", *bsarg,
                    "--reduce-iops", "True" if case["reader"] == "reduced" else "False"]
            code, exc = conv.cli_invoke(args)
            if code != 0:
                raise Violation("cli-failed", f"exit {code}: {exc!r}")
    elif route in ("zgy", "vds"):
        path = os.path.join(d, "in." + route)
        z = (sources.write_zgy if route == "zgy" else sources.write_vds)(path, data, case["il"], case["xl"], case["delay"],
                                                                         case["dt_us"] / 1000.0)
        src = z["cube"]
        if not codec.bits_equal(src, data):
            raise RuntimeError(f"harness: {route} reader returns other samples than written")
        if route == "vds":
            conv.segy_convert(path, out, bpv, bsarg, cls="VdsConverter", header_detection=case.get("mode", "heuristic"))
        elif case.get("cli"):
            code, exc = conv.cli_invoke(["zgy2sgz", path, out, "--bits-per-voxel", bpv])
            if code != 0:
                raise Violation("cli-failed", f"zgy2sgz exit {code}: {exc!r}")
        else:
            conv.segy_convert(path, out, bpv, bsarg, cls="ZgyConverter")
    elif route == "fixture":
        import warnings
        path = os.path.join(conv.env.REPO, "test_data", case["fixture"])
        with warnings.catch_warnings():
            warnings.simplefilter("ignore")
            if path.endswith(".zgy"):
                import pyzgy
                with pyzgy.open(path) as f:
                    src = np.stack([np.array(f.iline[int(i)], dtype=np.float32, copy=True) for i in f.ilines])
                cls = "ZgyConverter"
            else:
                import pyvds
                with pyvds.open(path) as f:
                    src = np.stack([np.array(f.iline[int(i)], dtype=np.float32, copy=True) for i in f.ilines])
                cls = "VdsConverter"
        case["shape"] = list(src.shape)
        conv.segy_convert(path, out, bpv, bsarg, cls=cls)
    else:
        raise RuntimeError(route)
    check_output(out, src, rate, bs)
    if earlier and route in ("numpy", "segy"):
        check_output(earlier[0][0], src, case["pre"]["rate"], tuple(case["pre"]["blockshape"]))
    return {"sig": signature(case) if nontrivial(case) else None,
            "labels": [route, f"rate={rate}", "multiblock" if any(n > b for n, b in zip(shape, bs)) else "singleblock",
                       "unaligned" if any(n % 4 for n in shape) else "aligned"] + (["reused-converter"] if earlier else [])
                      + (["after-prior-conversion"] if case.get("prior") is not None else [])
                      + (["crossline-sorted"] if case.get("sorting") == 1 else [])
                      + ([f"mem={case['mem']}"] if case.get("mem") not in (None, "C") else [])}


@st.composite
def numpy_cases(draw, settings=None):
    setting = draw(gen.setting_spelled(settings))
    shape = draw(gen.shape3d(setting["blockshape"], max_voxels=500_000))
    c = {"setting": setting, "shape": list(shape), "values": draw(gen.values_spec), "mem": draw(st.sampled_from(gen.MEM_LAYOUTS))}
    if draw(st.integers(0, 4)) == 0:
        c["pre"] = draw(gen.setting_spelled())
    return c


@st.composite
def segy_cases(draw, settings=None):
    setting = draw(gen.setting_spelled(settings))
    shape = draw(gen.shape3d(setting["blockshape"], max_voxels=200_000, max_traces=1500, magnitudes="lines"))
    il = draw(gen.line_axis(shape[0]))
    xl = draw(gen.line_axis(shape[1]))
    pre = draw(gen.setting_spelled()) if draw(st.integers(0, 4)) == 0 else None
    prior = draw(st.integers(0, 2 ** 32 - 1)) if draw(st.integers(0, 4)) == 0 else None
    return {"setting": setting, "shape": list(shape), "values": draw(gen.values_spec), **({"pre": pre} if pre else {}),
            **({"prior": prior} if prior is not None else {}),
            "fmt": draw(st.sampled_from([1, 5])), "ext": draw(st.sampled_from([0, 0, 1, 2])),
            "queue": draw(st.sampled_from([1, 2, 16])), "reader": draw(st.sampled_from(["segyio", "reduced"])),
            "il": list(il), "xl": list(xl), "mode": draw(st.sampled_from(["heuristic", "thorough", "exhaustive", "strip"])),
            "sorting": draw(st.sampled_from([2, 2, 2, 1])),
            "dt_us": draw(st.sampled_from([1000, 2000, 4000])), "delay": draw(st.sampled_from([0, 0, 100, -20]))}


CLI_SETTINGS = [s for s in gen.SETTINGS_3D if s[0] >= 1 or s[0] in (0.5, 0.25)]


@st.composite
def cli_cases(draw):
    s = draw(st.sampled_from(CLI_SETTINGS))
    # the CLI takes integers only: a rate below 1 must be spelled as a negative reciprocal
    free = draw(st.sampled_from(["none", "b0", "b1", "b2"]))
    setting = {"rate": s[0], "blockshape": list(s[1]), "free": free, "rate_as": "neg"}
    shape = draw(gen.shape3d(setting["blockshape"], max_voxels=150_000, max_traces=600, magnitudes="lines"))
    return {"setting": setting, "shape": list(shape), "values": draw(gen.values_spec),
            "fmt": draw(st.sampled_from([1, 5])), "ext": 0, "reader": draw(st.sampled_from(["segyio", "reduced"])),
            "il": [1, 1], "xl": [1, 1]}


@st.composite
def zgy_cases(draw):
    """Generated ZGY sources (pyzgy's writer).  The CLI form takes a bit rate only (default blockshape)."""
    cli = draw(st.sampled_from([False, False, True]))
    if cli:
        s = draw(st.sampled_from([t for t in gen.SETTINGS_3D if tuple(t[1][:2]) == (4, 4)]))
        setting = {"rate": s[0], "blockshape": list(s[1]), "free": "none", "rate_as": "neg"}
    else:
        setting = draw(gen.setting_spelled())
    shape = draw(gen.shape3d(setting["blockshape"], max_voxels=150_000, max_traces=800, magnitudes="lines"))
    ax = lambda: [draw(st.one_of(st.integers(-50, 5000), st.integers(-10 ** 6, 10 ** 6))),
                  draw(st.sampled_from([1, 1, -1, 2, -3, 5, 100]))]
    return {"setting": setting, "shape": list(shape), "cli": cli, "il": ax(), "xl": ax(),
            "values": {"kind": draw(st.sampled_from(["smooth", "gauss", "steps"])), "vseed": draw(st.integers(0, 2 ** 32 - 1))},
            "dt_us": draw(st.sampled_from([4000, 2000, 1000, 500, 2500])), "delay": draw(st.sampled_from([0, 0, 100, -20]))}


@st.composite
def vds_cases(draw):
    """Generated VDS sources (openvds writer, laid out as SEGYImport does: Amplitude, Trace, SEGYTraceHeader)."""
    setting = draw(gen.setting_spelled())
    shape = draw(gen.shape3d(setting["blockshape"], max_voxels=150_000, max_traces=800, magnitudes="lines"))
    ax = lambda: [draw(st.one_of(st.integers(-50, 5000), st.integers(-10 ** 6, 10 ** 6))), draw(st.sampled_from([1, 1, 2, 3, 5, 100]))]
    return {"setting": setting, "shape": list(shape), "il": ax(), "xl": ax(), "values": draw(gen.values_spec),
            "mode": draw(st.sampled_from(["heuristic", "thorough", "strip"])),
            "dt_us": draw(st.sampled_from([4000, 2000, 1000, 500])), "delay": draw(st.sampled_from([0, 0, 100, -20]))}


FIXTURES = ["zgy/small-32bit.zgy", "zgy/small-16bit.zgy", "zgy/small-8bit.zgy", "zgy/small-float-samplerate.zgy", "vds/small.vds"]


@st.composite
def fixture_cases(draw):
    setting = draw(gen.setting_spelled())
    return {"setting": setting, "fixture": draw(st.sampled_from(FIXTURES)), "shape": [5, 5, 50],
            "values": {"kind": "fixture", "vseed": 0}}


def shard_main(ctx):
    if ctx.tier == "thorough":
        # every one of the 344 settings at least 3 cubes (exhaustive over settings), sharded
        mine = [s for k, s in enumerate(gen.SETTINGS_3D) if k % ctx.nshards == ctx.shard]
        for s in mine:
            if not ctx.explore(f"numpy", numpy_cases(settings=[s]), run_case, 3):
                return
        ctx.extra["settings_enumerated"] = len(mine)
    if not ctx.explore("numpy", numpy_cases(), run_case, ctx.n(150, 800)):
        return
    if not ctx.explore("segy", segy_cases(), run_case, ctx.n(100, 600)):
        return
    if not ctx.explore("cli", cli_cases(), run_case, ctx.n(20, 100)):
        return
    if not ctx.explore("zgy", zgy_cases(), run_case, ctx.n(30, 300)):
        return
    if not ctx.explore("vds", vds_cases(), run_case, ctx.n(20, 200)):
        return
    ctx.explore("fixture", fixture_cases(), run_case, ctx.n(12, 80))


def replay(case, ctx):
    run_case(case, ctx)

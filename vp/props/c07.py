"""C07 I/O proportionality: a read touches only the disk blocks holding what it needs."""
import json
import os
import numpy as np
from hypothesis import strategies as st

from .. import files, iomodel, ops
from ..core import Violation
from ..spec import BLOCK

META = {
    "level": "exploration",
    "rule": ("case = spec-written file (all layouts and rates, regular / irregular / 2D, several blocks per axis) x "
             "backend {local file object, blob stand-in} x preload {off, on} x reader kind {SgzReader, emulator} x a "
             "history of 1-6 in-range read calls over every method; every range read is logged by the backend; R-model "
             "need(call) = 4 KiB data blocks intersecting the call's box (bounding box for stepped requests, union of "
             "per-trace boxes for diagonals), or footer byte ranges for header calls; checked per call: bytes read lie "
             "in need(call); no byte fetched twice; first (cold) call touches exactly need(call), later ones a subset; "
             "open touches header blocks only; gen_trace_header on a regular file reads exactly 4 bytes per stored "
             "array; preload = one read of exactly the data section at open and no data read afterwards; same counts "
             "on the blob backend; non-trivial = file with > 1 block on an axis orthogonal to the request and request "
             "smaller than the cube; distinct = (layout, method, backend, preload, cold/warm, position class)"),
    "assumptions": [
        "no timing is measured; the oracle is the (offset, length) sequence only",
        "irregular files: calls addressed by trace ordinal may additionally read the stored inline-number array (the only population mask the format has)",
        "2D get_trace with a sample window: asserted as a subset of the whole trace's blocks (the library reads the whole trace group)",
        "the blob backend is a stand-in implementing download_blob(offset, length).readall() and blob_name",
    ],
}

_cache = {}


def get_file(desc, ctx):
    key = json.dumps(desc, sort_keys=True)
    if key not in _cache:
        if len(_cache) > 3:
            for k in list(_cache)[:-1]:
                p = _cache.pop(k)[0]
                if os.path.exists(p):
                    os.remove(p)
        d = os.path.join(ctx.work, "files")
        os.makedirs(d, exist_ok=True)
        _cache[key] = files.build(desc, d, name=f"f{abs(hash(key)) % 10**10}.sgz")
    return _cache[key]


@st.composite
def cases(draw, ctx, two_d=False):
    if two_d:
        desc = draw(files.spec_file_2d())
    else:
        desc = draw(files.spec_file_3d(max_voxels=300_000, versions=["0.2.8", "0.2.8", "0.2.1", "0.1.7"]))
    path, T = get_file(desc, ctx)
    kind = draw(st.sampled_from(["reader", "reader", "emu"]))
    n = draw(st.integers(1, 6))
    opl = [draw(ops.op_for(T, reader_only=(kind == "reader"), emu_only=(kind == "emu"))) for _ in range(n)]
    opl = [o for o in opl if o["m"] != "tools.cube"]
    if kind == "emu" and not two_d and desc["family"] == "4x4" and draw(st.booleans()):
        # several lines through one accessor expression (f.iline[a:b] consumed at once), on the default layout, where
        # a line costs the blocks of its group of four: the groups the range touches, each fetched once
        which = draw(st.sampled_from(["iline_slice", "xline_slice"]))
        n, step = (T.n_il, desc["il"][1]) if which == "iline_slice" else (T.n_xl, desc["xl"][1])
        if step > 0 and n >= 2:
            lo = draw(st.integers(0, n - 2))
            hi = draw(st.integers(lo + 2, min(n, lo + 9)))
            opl.insert(draw(st.integers(0, len(opl))), {"m": which, "a": [lo, hi]})
    return {"file": desc, "backend": draw(st.sampled_from(["local", "blob"])), "preload": draw(st.sampled_from([False, False, True])),
            # the form in which a caller states "preload": the literal, an int, a NumPy bool (np.sum(...) < limit)
            "preload_as": draw(st.sampled_from(["bool", "bool", "int", "npbool"])),
            "kind": kind, "ops": opl}


def check_call(T, op, log, cold, preload, where, preload_state=None):
    preload_state = preload_state if preload_state is not None else {"done": True}
    s = T.s
    kind, nd = iomodel.need(T, op)
    touched, outside, footer, double = iomodel.analyse(T, log)
    tag = f"{op['m']}"
    if outside:
        raise Violation(f"read-outside-need:{tag}", f"{where}: {op} read header bytes {outside[:2]}")
    if double and kind != "footer":
        raise Violation(f"byte-fetched-twice:{tag}", f"{where}: {op}: range {double[0]} overlaps an earlier read of the same call; log {log[:6]}")
    if kind.startswith("data"):
        allowed_footer = []
        if not T.is_2d and not T.structured and op["m"] in ("get_trace", "trace", "get_trace_window", "get_trace_by_coord"):
            k = T.owners.index(189)
            allowed_footer = [(s.footer_start + k * s.stride, s.footer_start + k * s.stride + s.array_len)]
        for lo, hi in footer:
            if not any(a <= lo and hi <= b for a, b in allowed_footer):
                raise Violation(f"read-outside-need:{tag}", f"{where}: {op} read bytes [{lo},{hi}) beyond the data section (footer/EOF); data ends at {s.footer_start}")
        if preload:
            full = (s.data_start, BLOCK * s.n_diskblocks)
            data_log = [(o, q) for o, q, _ in log if o + q > s.data_start and o < s.footer_start]
            if not preload_state["done"] and data_log == [full]:
                # the one fetch of the data section may also happen at the first call that needs samples
                preload_state["done"] = True
                return
            if touched:
                raise Violation(f"read-after-preload:{tag}", f"{where}: {op} fetched data {data_log[:4]} "
                                f"({'the data section had been fetched already' if preload_state['done'] else 'not one exact read of the data section'})")
            return
        extra = touched - nd
        if extra:
            raise Violation(f"read-outside-need:{tag}", f"{where}: {op} touched {len(extra)} blocks it does not need, e.g. {sorted(extra)[:5]}; needs {len(nd)}; log {log[:4]}")
        if cold and kind == "data" and touched != nd:
            raise Violation(f"cold-read-misses-blocks:{tag}", f"{where}: {op} touched {len(touched)} of the {len(nd)} blocks it needs")
    else:
        if touched:
            raise Violation(f"header-call-read-data:{tag}", f"{where}: {op} touched data blocks {sorted(touched)[:5]}")
        for lo, hi in footer:
            if not any(a <= lo and hi <= b for a, b in nd) and kind == "footer":
                raise Violation(f"read-outside-need:{tag}", f"{where}: {op} read footer bytes [{lo},{hi}) outside the arrays it needs {nd[:3]}")
        if kind == "footer-exact":
            got = sorted((off, off + req) for off, req, ret in log)
            if cold and got != sorted(nd):
                raise Violation(f"header-cost:{tag}", f"{where}: {op} read {got[:6]} ({sum(b - a for a, b in got)} bytes), "
                                f"expected 4 bytes per stored array: {sorted(nd)[:6]}")
            for r in got:
                if r not in nd:
                    raise Violation(f"read-outside-need:{tag}", f"{where}: {op} read {r}, not a trace slot of a stored array")


def run_case(case, ctx):
    from seismic_zfp.read import SgzReader
    from seismic_zfp.segyio_emulator import SegyioEmulator
    path, T = get_file(case["file"], ctx)
    s = T.s
    preload = case["preload"] and case["kind"] == "reader"
    backend = iomodel.CountingFile(path) if case["backend"] == "local" else iomodel.CountingBlob(path, latency=0.003 if preload else 0.0)
    backend.arm()
    labels = [case["backend"], "preload" if preload else "nopreload", case["kind"]]
    sigs = []
    try:
        if case["kind"] == "reader":
            as_given = {"int": int, "npbool": np.bool_}.get(case.get("preload_as"), bool)(preload)
            r = SgzReader(backend, preload=as_given)
            H = ops.Handles(path, T, reader=r)
        else:
            if case["backend"] == "blob":
                return {"sig": None, "labels": ["emu-blob-skipped"]}
            e = SegyioEmulator(backend)
            H = ops.Handles(path, T)
            H._emu = e
            r = e
        open_log = list(backend.log)
        hdr_end = s.data_start
        data_reads = [(o, q) for o, q, _ in open_log if o + q > hdr_end]
        preload_state = {"done": False}
        if preload:
            want = [(s.data_start, BLOCK * s.n_diskblocks)]
            if data_reads not in ([], want):
                raise Violation("preload-not-one-exact-read", f"open with preload read {data_reads[:4]}, expected {want} (or nothing before the first sample call)")
            preload_state["done"] = data_reads == want
        elif data_reads:
            raise Violation("open-reads-beyond-header", f"open read {data_reads[:4]}; header ends at {hdr_end}")
        first_of_kind = set()
        for k, op in enumerate(case["ops"]):
            backend.arm()
            kind, want = ops.expected(T, op)
            try:
                got = ops.perform(H, op)
            except Exception as ex:
                raise Violation(f"exception:{op['m']}", f"{op}: {type(ex).__name__}: {ex}")
            ops.compare(kind, got, want, op)
            log = list(backend.log)
            cold = k == 0
            check_call(T, op, log, cold, preload, f"call {k} on {case['backend']}", preload_state)
            nk, nd = iomodel.need(T, op)
            total = s.n_diskblocks
            partial = nk.startswith("data") and len(nd) < total
            if partial or nk.startswith("footer"):
                sigs.append([case["file"]["family"], op["m"], case["backend"], preload, cold, T.structured,
                             ops.box_class(op, T)[:3] if op["m"] != "get_tracefield_values" else 0])
            labels.append(op["m"])
    finally:
        try:
            if case["kind"] == "reader":
                r.close()
            else:
                e.__exit__(None, None, None)
        except Exception:
            pass
        backend.close()
    return {"sigs": sigs, "labels": labels}


# a cube with more than 4096 block columns (260 x 261 traces, 3 samples): one z-slice call issues 4290 range reads
BIG_FILE = {"kind": "spec", "family": "4x4", "rate": 16, "blockshape": [4, 4, 128], "shape": [260, 261, 3], "version": "0.2.8",
            "values": {"kind": "gauss", "vseed": 31}, "il": [1, 1], "xl": [1, 1], "z0": 0, "dz_us": 4000, "arrays": [189, 193], "dups": []}


def shard_main(ctx):
    if ctx.shard in (0, 1):
        case = {"file": BIG_FILE, "backend": "local" if ctx.shard == 0 else "blob", "preload": False, "kind": "reader",
                "ops": [{"m": "read_zslice", "a": [1]}, {"m": "read_crossline", "a": [258]}, {"m": "read_inline", "a": [257]},
                        {"m": "read_subvolume", "a": [250, 260, 255, 261, 0, 3]}]}
        try:
            ctx.evaluate(case, run_case)
        except Violation as v:
            ctx.failures.append({"kind": v.kind, "detail": v.detail, "case": case})
            return
    if not ctx.explore("io3d", cases(ctx), run_case, ctx.n(400, 4000)):
        return
    ctx.explore("io2d", cases(ctx, two_d=True), run_case, ctx.n(120, 1000))


def replay(case, ctx):
    run_case(case, ctx)

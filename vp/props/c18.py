"""C18 partial files: an interrupted conversion or copy never reads back as data."""
import builtins
import os
import numpy as np
from hypothesis import strategies as st

from .. import codec, conv, env, files, gen, sgy, sources, spec
from .. import known
from ..core import Violation

META = {
    "level": "fault_enumeration",
    "rule": ("case = a writer run (NumPy / SEG-Y 3D / 2D / irregular conversion in each detection mode, cropper, "
             "re-blocker) on a small input, recorded as its sequence of write calls (offset, bytes) through a recording "
             "open(); crash points = EVERY prefix of that sequence, cuts inside every write (first byte, middle, last "
             "byte - 1), and byte lengths of the finished file on a grid (all 4096-multiples +-1, and a drawn stride); "
             "on each partial image every read method is called with fixed in-range arguments touching the first, "
             "middle and last block and every footer array; oracle: opening/reading raises, or returns exactly what "
             "the complete file returns; non-trivial = cut after the header write and before the last write; distinct = "
             "(route, stage of the cut, inside/boundary, method)"),
    "assumptions": [
        "crash points are prefixes of the program-order sequence of write() calls (buffering below the file object is not modelled)",
        "reference = the library's own results on the complete file, as the statement is relative to it",
        "known finding K04: the source-data hash is patched in by the last write, so every earlier image reads a zero hash",
    ],
}


class Recorder:
    def __init__(self):
        self.writes = []      # (offset, bytes)
        self.seen = set()     # paths already opened for writing in this recording (their content is what was recorded)
        self.real_open = builtins.open

    def open(self, path, mode="r", *a, **k):
        base = None
        first = path not in self.seen
        if "w" in mode or "+" in mode or "a" in mode:
            self.seen.add(path)
        if first and "w" not in mode and ("+" in mode or "a" in mode) and os.path.exists(path):
            # opened for update: what the path holds at that moment stays until it is overwritten or cut
            with self.real_open(path, "rb") as g:
                base = g.read()
        f = self.real_open(path, mode, *a, **k)
        if "w" in mode or "+" in mode or "a" in mode:
            if base is not None:
                self.writes.append((("base", len(base)), base))
            return RecFile(f, self)
        return f


class RecFile:
    def __init__(self, f, rec):
        self._f, self._rec = f, rec
        self.name = f.name

    def write(self, b):
        self._rec.writes.append((self._f.tell(), bytes(b)))
        return self._f.write(b)

    def truncate(self, size=None):
        # changes the file's content (cut, or extension with zeros): one step of the write sequence
        size = self._f.tell() if size is None else size
        self._rec.writes.append((("truncate", int(size)), b""))
        return self._f.truncate(size)

    def __getattr__(self, item):
        return getattr(self._f, item)

    def __enter__(self):
        return self

    def __exit__(self, *a):
        self._f.close()


def record(fn):
    """Run fn() with conversion.open / cropping.open replaced by a recording open."""
    import seismic_zfp.conversion as C
    import seismic_zfp.cropping as K
    rec = Recorder()
    C.open = rec.open
    K.open = rec.open
    try:
        fn()
    finally:
        del C.open
        del K.open
    return rec.writes


def image(writes, n_full, partial=None):
    """File content after the first n_full writes (+ optionally the first `partial` bytes of the next)."""
    buf = bytearray()

    def put(off, data):
        if isinstance(off, tuple) and off[0] == "base":      # content found at the path by an open for update
            buf[:] = data
            return
        if isinstance(off, tuple):      # ("truncate", size)
            if off[1] > len(buf):
                buf.extend(bytes(off[1] - len(buf)))
            else:
                del buf[off[1]:]
            return
        if off > len(buf):
            buf.extend(bytes(off - len(buf)))
        buf[off:off + len(data)] = data
    for off, data in writes[:n_full]:
        put(off, data)
    if partial is not None and n_full < len(writes):
        off, data = writes[n_full]
        put(off, data[:partial])
    return bytes(buf)


def fixed_ops(r):
    """(name, thunk) pairs with fixed in-range arguments: first / middle / last block, every footer array."""
    out = [("hash", lambda: r.get_source_data_hash()), ("tracecount", lambda: r.tracecount),
           ("zslices", lambda: np.array(r.zslices))]
    if r.is_2d:
        n, ns = r.tracecount, r.n_samples
        out += [("get_trace(0)", lambda: r.get_trace(0)), (f"get_trace({n - 1})", lambda: r.get_trace(n - 1)),
                (f"get_trace({n // 2})", lambda: r.get_trace(n // 2)),
                ("read_subplane(all)", lambda: r.read_subplane(0, n, 0, ns)),
                ("read_subplane(last)", lambda: r.read_subplane(n - 1, n, ns - 1, ns))]
    else:
        ni, nx, ns = r.n_ilines, r.n_xlines, r.n_samples
        out += [("ilines", lambda: np.array(r.ilines)), ("xlines", lambda: np.array(r.xlines)),
                ("read_inline(0)", lambda: r.read_inline(0)), (f"read_inline({ni - 1})", lambda: r.read_inline(ni - 1)),
                (f"read_crossline({nx // 2})", lambda: r.read_crossline(nx // 2)),
                ("read_zslice(0)", lambda: r.read_zslice(0)), (f"read_zslice({ns - 1})", lambda: r.read_zslice(ns - 1)),
                ("read_subvolume(mid)", lambda: r.read_subvolume(ni // 2, ni // 2 + 1, nx // 2, nx, 0, ns)),
                ("read_volume", lambda: r.read_volume()),
                ("get_trace(0)", lambda: r.get_trace(0)), (f"get_trace({r.tracecount - 1})", lambda: r.get_trace(r.tracecount - 1)),
                ("adiag", lambda: r.read_anticorrelated_diagonal(ni - 1))]
    t = r.tracecount
    out += [("gen_trace_header(0)", lambda: dict(r.gen_trace_header(0))),
            (f"gen_trace_header({t - 1})", lambda: dict(r.gen_trace_header(t - 1))),
            ("gen_trace_header_all", lambda: dict(r.gen_trace_header(t // 2, load_all_headers=True)))]
    for k in list(r.stored_header_keys)[:6]:
        out.append((f"get_tracefield_values({int(k)})", lambda k=k: np.array(r.get_tracefield_values(k))))
    return out


def same(a, b):
    if isinstance(a, dict):
        return isinstance(b, dict) and {int(k): int(v) for k, v in a.items()} == {int(k): int(v) for k, v in b.items()}
    if isinstance(a, np.ndarray) or isinstance(b, np.ndarray):
        a, b = np.asarray(a), np.asarray(b)
        if a.shape != b.shape:
            return False
        if a.dtype.kind == "f":
            return codec.bits_equal(a.astype(np.float32), b.astype(np.float32)) if a.dtype != np.float64 else np.array_equal(a, b)
        return np.array_equal(a, b)
    return a == b


def extra_reference(path, name):
    from seismic_zfp.read import SgzReader
    import re
    m = re.match(r"get_tracefield_values\((\d+)\)", name)
    h = re.match(r"gen_trace_header\((\d+)\)", name)
    try:
        with SgzReader(path) as r:
            if m:
                return ("ok", np.array(r.get_tracefield_values(int(m.group(1)))))
            if h:
                return ("ok", dict(r.gen_trace_header(int(h.group(1)))))
    except Exception as e:
        return ("exc", e)
    return ("exc", KeyError(name))


READER_FORMS = ["str", "str", "path", "raw", "str", "nofd", "str", "buffered"]


def results_on(path, preload=False, form="str", extra_traces=()):
    """form: how the file is handed to the reader -- named (str, pathlib.Path), an unbuffered raw handle
    (open(p, 'rb', buffering=0)), a buffered handle, or a file-like object without an OS descriptor."""
    from seismic_zfp.read import SgzReader
    res = {}
    fh = None
    try:
        if form == "raw":
            fh = arg = open(path, "rb", buffering=0)
        elif form == "buffered":
            fh = arg = open(path, "rb")
        elif form == "nofd":
            from .. import iomodel
            fh = arg = iomodel.CountingFile(path)
        elif form == "path":
            import pathlib
            arg = pathlib.Path(path)
        else:
            arg = path
        r = SgzReader(arg, preload=preload)
    except Exception as e:
        if fh is not None:
            fh.close()
        return None, e
    try:
        ops_ = fixed_ops(r)
        for t in extra_traces:
            if 0 <= t < r.tracecount:
                ops_.append((f"gen_trace_header({t})", lambda t=t: dict(r.gen_trace_header(t))))
        for name, thunk in ops_:
            try:
                res[name] = ("ok", thunk())
            except Exception as e:
                res[name] = ("exc", e)
    finally:
        try:
            r.close()
        except Exception:
            pass
        if fh is not None:
            try:
                fh.close()
            except Exception:
                pass
    return res, None


def stage_of(writes, n_full, total_len):
    if n_full == 0:
        return "header"
    off, data = writes[min(n_full, len(writes) - 1)]
    if n_full >= len(writes):
        return "complete"
    if isinstance(off, tuple):
        return "truncate"
    if off < 8192 and len(data) <= 1100:
        return "patch"
    return "block-or-footer"


def check_images(case, ctx, writes, final_path, d):
    """Evaluate every crash point of one recorded writer run."""
    final = conv.read_bytes(final_path)
    if image(writes, len(writes)) != final:
        raise RuntimeError("harness: replaying the recorded writes does not reproduce the finished file")
    ref, err = results_on(final_path)
    if ref is None:
        raise Violation("complete-file-unreadable", repr(err))
    for name, (o, v) in ref.items():
        if o != "ok":
            raise Violation("complete-file-read-failed", f"{name}: {v!r}")
    ref_pl, err = results_on(final_path, preload=True)
    if ref_pl is None or any(o != "ok" or not same(v, ref[name][1]) for name, (o, v) in ref_pl.items()):
        raise Violation("complete-file-preload-differs", repr(err))
    points = []
    for k in range(len(writes) + 1):
        points.append(("prefix", k, None))
        # (files with very many writes -- 89 footer arrays in exhaustive mode: every prefix is kept, cuts
        # inside a write are thinned to every 8th write after the first 12)
        if k < len(writes) and (k < 12 or k % 8 == 0 or k >= len(writes) - 3):
            n = len(writes[k][1])
            for p in sorted({1, 2, n // 2, n // 2 + 2, n - 2, n - 1} if n <= 4096 else {1, n // 2, n - 1}):    # (every residue modulo 4 inside small writes)
                if 0 < p < n:
                    points.append(("inside", k, p))
    lengths = set()
    for b in range(0, len(final) + 4096, 4096 if not case.get("coarse") else 2 ** 20 + 4096):
        lengths |= {b - 1, b, b + 1}
    stride = case.get("stride", 997)
    lengths |= set(range(0, len(final), stride))
    lengths |= {len(final) - 1, len(final) - 3, len(final) - 512, len(final) - 513}
    for L in sorted(x for x in lengths if 0 <= x < len(final)):
        points.append(("length", L, None))
    only = case.get("only_point")
    fspec = spec.SgzSpec(final)
    structured = (not fspec.is_2d) and fspec.tracecount == fspec.n_il * fspec.n_xl
    # every partial image of this process is stored under the same name (a path that has held other files before)
    p = os.path.join(ctx.work, "partial.sgz")
    if fspec.footer_start < len(final):
        # ... among them, just before, a complete file of the same geometry whose header arrays hold other values, which
        # a reader of this process has loaded in full: nothing of it may be served for the files that follow
        decoy = bytearray(final)
        for k in range(fspec.footer_start, len(final)):
            decoy[k] ^= 0x15
        with open(p, "wb") as f:
            f.write(decoy)
        try:
            from seismic_zfp.read import SgzReader
            with SgzReader(p) as r0:
                for key in list(r0.stored_header_keys):
                    r0.get_tracefield_values(key)
                r0.read_variant_headers()
        except Exception:
            pass     # (whether the decoy itself is readable is of no concern here)
    n_eval = 0
    for pi, pt in enumerate(points):
        if only is not None and list(pt) != list(only):
            continue
        # the reader option preload alternates over the crash points (offset drawn per case)
        preload = bool(case["point_preload"]) if only is not None and "point_preload" in case else bool((pi + case.get("pl", 0)) % 2)
        kind, k, part = pt
        img = final[:k] if kind == "length" else image(writes, k, part)
        with open(p, "wb") as f:
            f.write(img)
        case["point"] = list(pt)
        case["point_preload"] = preload
        case["obs"] = {"hash_present": img[960:980] == final[960:980] and len(img) >= 980}
        ctx.mark_current(case)
        form = case["point_form"] if only is not None and "point_form" in case else READER_FORMS[(pi // 2 + case.get("pl", 0)) % len(READER_FORMS)]
        case["point_form"] = form
        # when the file ends inside a footer array: the header of the trace whose value is cut, and of its neighbour
        cut = []
        if fspec is not None and len(img) > fspec.footer_start and fspec.stride:
            within = (len(img) - fspec.footer_start) % fspec.stride
            if within < fspec.array_len:
                g = within // 4
                cut = [t for t in (g, g - 1) if t >= 0] if structured else []
        res, err = results_on(p, preload=preload, form=form, extra_traces=cut)
        n_eval += 1
        if kind == "length":
            where = "header" if k < 8192 else "body"
        else:
            where = stage_of(writes, k, len(final))
        if res is None:
            ctx.labels["open-raises"] += 1
            continue
        for name, (o, v) in res.items():
            if o == "exc":
                continue
            if name not in ref:
                # a header word the partial file claims to store and the complete file does not list: the
                # complete file's answer to the same call is the reference
                ref[name] = extra_reference(final_path, name)
            if ref[name][0] != "ok" or not same(v, ref[name][1]):
                mname = name.split("(")[0]
                vio = Violation(f"partial-file-differs:{mname}",
                                f"{case['route']}: image at {pt} ({len(img)} of {len(final)} bytes), preload={preload}, file given as {form}: {name} returned a value "
                                f"that differs from the complete file's")
                kid = ctx.known.match(ctx.open_known, ctx.prop, case, vio)
                if kid is not None:
                    ctx.known_hits[kid] += 1
                    continue
                raise vio
            if 0 < len(img) < len(final):
                ctx.sigs.add(f"{case['route']}:{kind}:{where}:{name.split('(')[0]}:{'preload' if preload else 'lazy'}")
        ctx.labels[f"{kind}:{where}"] += 1
    ctx.evaluations += max(0, n_eval - 1)
    ctx.extra["crash_points"] = ctx.extra.get("crash_points", 0) + n_eval
    return n_eval


@st.composite
def cases(draw):
    route = draw(st.sampled_from(["numpy", "segy", "segy", "irregular", "2d", "crop", "reblock"]))
    c = {"route": route, "mode": draw(st.sampled_from(["heuristic", "thorough", "exhaustive", "strip"])),
         "stride": draw(st.integers(1500, 6000)), "values": draw(gen.values_spec), "pl": draw(st.integers(0, 1))}
    if route == "irregular" and c["mode"] == "strip":
        c["mode"] = "thorough"
    if route == "2d":
        c["setting"] = list(draw(st.sampled_from([(4, (1, 16, 512)), (8, (1, 4, 1024)), (2, (1, 64, 256))])))
        c["src"] = draw(sources.segy_source(geom="2d", max_dim=5, max_ns=12, allow_mid=False))
        c["src"]["n_tr"] = draw(st.sampled_from([5, 17, 33, 70]))
        c["src"]["ns"] = draw(st.sampled_from([9, 300, 530]))
    else:
        c["setting"] = list(draw(st.sampled_from([(4, (4, 4, 512)), (2, (4, 4, 1024)), (8, (8, 8, 64)), (2, (64, 64, 4)), (16, (4, 4, 128))])))
        if route == "reblock":
            c["setting"] = [2, (4, 4, 1024)]
        if route in ("numpy", "crop", "reblock"):
            c["shape"] = [draw(st.integers(2, 10)), draw(st.integers(2, 10)), draw(st.sampled_from([5, 9, 140, 530]))]
        else:
            c["src"] = draw(sources.segy_source(geom="regular" if route == "segy" else "irregular", max_dim=8, max_ns=12,
                                                allow_mid=False))
            c["src"]["ns"] = draw(st.sampled_from([5, 9, 140]))
    return c


def run_case(case, ctx):
    d = ctx.tmp()
    rate, bs = case["setting"][0], tuple(case["setting"][1])
    out = os.path.join(d, "full.sgz")
    route = case["route"]
    # (for one run in three an earlier run has left a file of another kind at the output path: a writer that opened it
    # for update instead of replacing it would keep its content behind every crash point)
    conv.leave_stale(out, repr(case.get("values")) + route + repr(case.get("setting")))
    if route in ("numpy", "crop", "reblock"):
        data = gen.make_values(tuple(case["shape"]), case["values"]["kind"], case["values"]["vseed"])
        n_il, n_xl, ns = case["shape"]
        hd = {1: np.arange(n_il * n_xl, dtype=np.int32).reshape(n_il, n_xl)}
        if route == "numpy":
            writes = record(lambda: conv.numpy_convert(data, out, rate, bs, trace_headers=hd))
        else:
            src = os.path.join(d, "src.sgz")
            conv.numpy_convert(data, src, rate, bs, trace_headers=hd)
            if route == "crop":
                from seismic_zfp.cropping import SgzCropper

                def go():
                    c = SgzCropper(src)
                    try:
                        with env.quiet():
                            c.write_cropped_file_by_indexes(out, (0, max(1, n_il - 1)), (0, n_xl), None)
                    finally:
                        c.close()
            else:
                from seismic_zfp.conversion import SgzConverter

                def go():
                    c = SgzConverter(src)
                    try:
                        c.convert_to_adv_sgz(out)
                    finally:
                        c.close()
            writes = record(go)
    else:
        S = sources.build(case["src"], d)
        sources.annotate(case, S)
        if case["obs"]["segyio_calls_it_regular"] and route == "irregular":
            return {"sig": None, "labels": ["irregular-looks-regular-skipped"]}
        if route == "irregular" and known._irregular_inline_zero(case["src"]):
            # K01 (a populated trace with inline number 0 reads as a hole): even the complete file cannot be
            # read trace by trace, so there is no reference to compare partial files with
            return {"sig": None, "labels": ["irregular-inline-zero-skipped"]}
        writes = record(lambda: conv.segy_convert(S.path, out, rate, bs, header_detection=case["mode"]))
    n = check_images(case, ctx, writes, out, d)
    case.pop("point", None)
    case.pop("point_preload", None)
    case.pop("obs", None)
    case["n_writes"], case["crash_points_evaluated"] = len(writes), n
    return {"sig": ["run", route, case["mode"], case["setting"], len(writes)], "labels": [route, case["mode"], f"writes={min(len(writes), 20)}"]}


# writer runs whose write sequence has a shape the random cases seldom produce; one per shard, every run
SPECIAL = [
    # a 2D line whose 89 header words are all constant, 'thorough' detection: the count / table patches empty the header
    {"route": "2d", "mode": "thorough", "stride": 2000, "pl": 0, "values": {"kind": "gauss", "vseed": 3}, "setting": [4, [1, 16, 512]],
     "src": {"geom": "2d", "fmt": 5, "ext": 0, "dt_us": 4000, "delay": 0, "values": {"kind": "gauss", "vseed": 3}, "text_seed": 1,
             "bin": {}, "ns": 9, "n_tr": 17, "variant": "zero", "line": [1, 1, 1], "fields": {}}},
    # the same for a blockshape whose trace group is 4 wide
    {"route": "2d", "mode": "thorough", "stride": 2000, "pl": 1, "values": {"kind": "gauss", "vseed": 4}, "setting": [8, [1, 4, 1024]],
     "src": {"geom": "2d", "fmt": 1, "ext": 0, "dt_us": 2000, "delay": 100, "values": {"kind": "gauss", "vseed": 4}, "text_seed": 2,
             "bin": {}, "ns": 30, "n_tr": 9, "variant": "zero", "line": [1, 1, 1], "fields": {}}},
    # a regular cube with constant and varying words, 'thorough' and 'exhaustive'
    {"route": "segy", "mode": "thorough", "stride": 2500, "pl": 0, "values": {"kind": "gauss", "vseed": 5}, "setting": [4, [4, 4, 512]],
     "src": {"geom": "regular", "fmt": 5, "ext": 0, "dt_us": 4000, "delay": 0, "values": {"kind": "gauss", "vseed": 5}, "text_seed": 3,
             "bin": {}, "ns": 9, "n_il": 6, "n_xl": 7, "il": [1, 1], "xl": [10, 2],
             "fields": {"9": {"kind": "const", "seed": 1}, "73": {"kind": "vary", "seed": 2}, "77": {"kind": "vary", "seed": 3}}}},
    {"route": "segy", "mode": "exhaustive", "stride": 2500, "pl": 1, "values": {"kind": "gauss", "vseed": 6}, "setting": [2, [64, 64, 4]],
     "src": {"geom": "regular", "fmt": 1, "ext": 1, "dt_us": 2000, "delay": -40, "values": {"kind": "gauss", "vseed": 6}, "text_seed": 4,
             "bin": {}, "ns": 9, "n_il": 5, "n_xl": 4, "il": [3, 2], "xl": [7, 1], "fields": {"21": {"kind": "vary", "seed": 4}}}},
    # a data section of 17 MiB (68 x 256 x 512 at 16 bits), NumPy route, lengths on a 1 MiB grid: what a preload fetched in
    # pieces makes of a file that ends inside the data section
    {"route": "numpy", "mode": "strip", "stride": 10 ** 9, "pl": 1, "values": {"kind": "smooth", "vseed": 9}, "setting": [16, [4, 4, 128]],
     "shape": [68, 256, 512], "coarse": True},
]


def shard_main(ctx):
    if ctx.shard < len(SPECIAL):
        case = dict(SPECIAL[ctx.shard], check="special")
        try:
            ctx.evaluate(case, run_case)
        except Violation as v:
            ctx.failures.append({"kind": v.kind, "detail": v.detail, "case": case})
            return
    ctx.explore("partial", cases(), run_case, ctx.n(4, 60), shrink_s=20)


def replay(case, ctx):
    case = dict(case)
    if "point" in case:
        case["only_point"] = case["point"]
    run_case(case, ctx)

"""C13 segyio emulation: documented accessor expressions behave as on the SEG-Y."""
import os
import numpy as np
from hypothesis import strategies as st

from .. import codec, conv, gen, sgy, sources, spec
from ..core import Violation

META = {
    "level": "exploration",
    "rule": ("case = regular SEG-Y with ascending or descending axes and increments 1..5 (il and xl independent, line "
             "numbers >= 0), converted at 16 or 32 bits with a blockshape 4-16 lines wide (traces of up to 70 samples span several blocks in depth), + a program of 5-30 expressions from the grammar of the "
             "documented interface: iline[n]/xline[n] (present/absent), line slices with every combination of "
             "start/stop/step present (bounds existing line numbers, step a multiple of the increment in axis order), "
             "iteration, len(), depth_slice/trace/header by index, negative index, just outside, and slices with any "
             "non-zero step, ilines/xlines/samples/tracecount, attributes(f)[slice] for stored and constant fields, bin, "
             "text[0], tools.dt, tools.cube, subvolume[a:b:c, ...]; differential oracle: each expression is evaluated on "
             "segyio.open(sgy) and seismic_zfp.open(sgz); kind, length, element shapes, keys and order must match, header "
             "values must be equal, every sample array must be the slice of the SGZ's decoded volume at the position "
             "segyio returned (identified by matching segyio's array against the source cube); if segyio raises, the "
             "emulator must raise; non-trivial = descending axis or increment != 1 or open-ended / negative-step slice; "
             "distinct = (axis order pair, increment pair, production, which of start/stop/step present)"),
    "assumptions": [
        "segyio is the reference for structure and positions; generators and line accessors reuse buffers, so every element is copied before comparing",
        "exception types are not compared (segyio's KeyError vs the emulator's IndexError is not a difference the property names)",
        "line numbers are >= 0; on an axis that carries the label 0, a line slice / iteration is compared only when segyio itself answers as its documentation says (labels of range(start, stop, step) present in the file): its slice arithmetic reads a computed stop of -1 as an ordinal from the end, and copying that is not something the property asks of the emulator. Negative labels are not generated (segyio rejects or mis-answers most slices there)",
        "text header alphabet: EBCDIC letters, digits, space and . - : (where segyio's table and cp037 agree)",
        "subvolume[...] has no segyio counterpart: oracle = decoded volume sliced through the coordinate->index map of the SEG-Y axes",
    ],
}

# blockshapes with -1 for the depth: at 16/32 bits (4,4,-1) is 128/64 samples deep, (8,8,-1) 32/16, (16,16,-1) 8/4:
# traces of up to 70 samples span several blocks along z
BLOCKSHAPES = [[4, 4, -1], [4, 4, -1], [8, 8, -1], [16, 16, -1], [4, 8, -1]]
LINES_FROM = int(os.environ.get("VERIF_C13_LINES_FROM", "0"))

PRODUCTIONS = ["line_get", "line_get_absent", "line_slice", "line_iter", "len", "ord_get", "ord_neg", "ord_out",
               "ord_slice", "attr", "axes", "bin", "text", "dt", "cube", "subvolume"]


@st.composite
def expr(draw):
    p = draw(st.sampled_from(PRODUCTIONS + ["line_slice", "ord_slice", "line_slice"]))
    e = {"p": p, "u": [draw(st.floats(0, 1, exclude_max=True)) for _ in range(6)]}
    if p.startswith("line"):
        e["acc"] = draw(st.sampled_from(["iline", "xline"]))
        if p == "line_slice":
            e["has"] = [draw(st.booleans()) for _ in range(3)]
            e["k"] = draw(st.sampled_from([1, 1, 2, 3]))
            if draw(st.integers(0, 5)) == 0:
                e["far"] = [True, True, draw(st.integers(0, 2))]
    elif p in ("ord_get", "ord_neg", "ord_out", "ord_slice"):
        e["acc"] = draw(st.sampled_from(["depth_slice", "trace", "header"]))
        if p == "ord_slice":
            e["has"] = [draw(st.booleans()) for _ in range(3)]
            e["step"] = draw(st.sampled_from([1, 2, 3, 7, -1, -2, -5]))
            e["neg"] = [draw(st.booleans()), draw(st.booleans())]
        if p == "ord_out":
            e["side"] = draw(st.sampled_from(["n", "n+1", "-n-1"]))
    elif p == "len":
        e["acc"] = draw(st.sampled_from(["iline", "xline", "depth_slice", "trace", "header"]))
    elif p == "attr":
        e["field"] = draw(st.sampled_from([189, 193, 1, 5, 37, 71, 115, 117, 181]))
        e["has"] = [draw(st.booleans()) for _ in range(3)]
        e["step"] = draw(st.sampled_from([1, 2, 5, -1, -3]))
    elif p == "axes":
        e["which"] = draw(st.sampled_from(["ilines", "xlines", "samples", "tracecount"]))
    elif p == "subvolume":
        e["k"] = [draw(st.sampled_from([None, 1, 2])) for _ in range(3)]
        e["open"] = [draw(st.booleans()) for _ in range(6)]
    if p in ("line_get", "line_slice", "ord_get", "ord_neg", "ord_out", "ord_slice", "attr"):
        # the integer type of the subscripts: a Python int, or what np.argmax / indexing an array hands over
        it = draw(st.sampled_from(["int", "int", "int", "np64", "np32", "intp"]))
        if it != "int":
            e["it"] = it
    return e


@st.composite
def cases(draw):
    n_il, n_xl, ns = draw(st.integers(2, 8)), draw(st.integers(2, 8)), draw(st.one_of(st.integers(2, 12), st.integers(13, 70)))
    if draw(st.integers(0, 7)) == 0:
        # 128*k traces: every stored header array fills whole 512-byte pages
        n_il, n_xl = draw(st.sampled_from([(8, 16), (16, 8), (4, 32), (16, 16), (2, 64)]))
        ns = min(ns, 10)
    if draw(st.integers(0, 11)) == 5:
        # more than 256 lines on one axis (a handful on the other, few samples)
        many, few = 256 + draw(st.integers(1, 30)), draw(st.integers(2, 3))
        n_il, n_xl = (many, few) if draw(st.booleans()) else (few, many)
        ns = min(ns, 6)
    src = draw(sources.segy_source(geom="regular", dims=(n_il, n_xl), max_ns=12, allow_mid=False))
    src["ns"] = ns
    src["values"] = {"kind": "gauss", "vseed": draw(st.integers(0, 10 ** 6))}   # distinct lines: positions identifiable
    for ax, n in (("il", n_il), ("xl", n_xl)):
        step = draw(st.sampled_from([1, 1, 2, 3, 5, -1, -2, -3]))
        lo = draw(st.one_of(st.integers(1, 3000), st.integers(LINES_FROM, 3), st.integers(1, 3000), st.integers(100_000, 4_000_000)))   # (six- and seven-digit numbering too)
        src[ax] = [lo, step] if step > 0 else [lo + (-step) * (n - 1), step]
    src["delay"] = draw(st.sampled_from([0, 0, 100]))
    src["dt_us"] = draw(st.sampled_from([4000, 2000, 1000]))
    src["ext"] = 0
    src["dt_where"] = draw(st.sampled_from(["both", "both", "both", "trace", "bin"]))
    return {"src": src, "bpv": draw(st.sampled_from([16, 32])), "bs": draw(st.sampled_from(BLOCKSHAPES)), "mode": draw(st.sampled_from(["exhaustive", "thorough", "thorough"])),
            "prog": draw(st.lists(expr(), min_size=5, max_size=30))}


def materialise(x):
    """Normalise a result: ('array', ndarray) | ('seq', [elements...]) | ('dict', {...}) | ('scalar', v) | ('bytes', b)."""
    import segyio
    if isinstance(x, np.ndarray):
        return ("array", np.array(x, copy=True))
    if isinstance(x, (bytes, bytearray)):
        return ("bytes", bytes(x))
    if isinstance(x, (segyio.field.Field, dict)):
        return ("dict", {int(k): int(v) for k, v in x.items()})
    if isinstance(x, (int, float, np.integer, np.floating)):
        return ("scalar", float(x))
    if hasattr(x, "__iter__"):
        return ("seq", [materialise(np.array(e, copy=True) if isinstance(e, np.ndarray) else e) for e in x])
    return ("other", x)


def build_expr(e, S, f, g, gpath):
    """Returns (description, thunk on segyio handle or None, thunk on emulator, axis for position matching)."""
    import segyio
    import seismic_zfp
    p, u = e["p"], e["u"]
    import builtins
    _t = {"np64": np.int64, "np32": np.int32, "intp": np.intp}.get(e.get("it"), builtins.int)

    def int(v, _t=_t):      # (every subscript of this expression is built through int(...))
        return _t(builtins.int(v))
    il, xl = list(S.ilines), list(S.xlines)
    n_il, n_xl, ns, ntr = len(il), len(xl), len(S.samples), S.n
    if p in ("line_get", "line_get_absent", "line_slice", "line_iter"):
        acc = e["acc"]
        ax = il if acc == "iline" else xl
        axis = 0 if acc == "iline" else 1
        inc = ax[1] - ax[0]
        if p == "line_get":
            n = int(ax[int(u[0] * len(ax))])
            return f"{acc}[{n}]", lambda h: getattr(h, acc)[n], axis
        if p == "line_get_absent":
            n = int(max(ax) + abs(inc) + 1) if u[0] < 0.5 else (int(ax[0] + inc // 2) if abs(inc) > 1 else int(min(ax) - 1))
            if n in ax:
                n = int(max(ax) + 7)
            return f"{acc}[{n}] (absent)", lambda h: getattr(h, acc)[n], axis
        if p == "line_iter":
            th = lambda h: [np.array(x, copy=True) for x in getattr(h, acc)]
            th.abc = (None, None, None)
            return f"list({acc})", th, axis
        a = int(ax[int(u[0] * len(ax))]) if e["has"][0] else None
        b = int(ax[int(u[1] * len(ax))]) if e["has"][1] else None
        c = int(e["k"] * inc) if e["has"][2] else None
        if e.get("far") and inc > 0 and min(ax) > 5:
            # bounds far outside an ascending axis of positive numbers: a range of more than 65 536 candidate
            # numbers starting at 0, 1 or 2 (in general not congruent to the first line modulo the step)
            stepv = abs(c) if c else 1
            a = int(e["far"][2])
            b = int(max(ax) + 70_000 * stepv + 1)
        th = lambda h: [np.array(x, copy=True) for x in getattr(h, acc)[a:b:c]]
        th.abc = (a, b, c)
        return f"{acc}[{a}:{b}:{c}]", th, axis
    if p in ("ord_get", "ord_neg", "ord_out", "ord_slice"):
        acc = e["acc"]
        n = {"depth_slice": ns, "trace": ntr, "header": ntr}[acc]
        axis = {"depth_slice": 2, "trace": "trace", "header": "header"}[acc]
        if p == "ord_get":
            i = int(u[0] * n)
        elif p == "ord_neg":
            i = -1 - int(u[0] * n)
        elif p == "ord_out":
            i = {"n": n, "n+1": n + 1, "-n-1": -n - 1}[e["side"]]
        if p != "ord_slice":
            if acc == "header":
                return f"header[{i}]", lambda h: dict(h.header[i]), axis
            return f"{acc}[{i}]", lambda h: np.array(getattr(h, acc)[i], copy=True), axis
        a = int(u[0] * n) if e["has"][0] else None
        b = int(u[1] * (n + 1)) if e["has"][1] else None
        if a is not None and e["neg"][0]:
            a = a - n
        if b is not None and e["neg"][1] and b > 0:
            b = b - n - 1 if b - n - 1 < 0 else None
        c = e["step"] if e["has"][2] else None
        if acc == "header":
            return f"header[{a}:{b}:{c}]", lambda h: [dict(x) for x in h.header[a:b:c]], axis
        return f"{acc}[{a}:{b}:{c}]", lambda h: [np.array(x, copy=True) for x in getattr(h, acc)[a:b:c]], axis
    if p == "len":
        acc = e["acc"]
        return f"len({acc})", lambda h: len(getattr(h, acc)), None
    if p == "attr":
        fld = e["field"]
        a = int(u[0] * ntr) if e["has"][0] else None
        b = int(u[1] * (ntr + 1)) if e["has"][1] else None
        c = e["step"] if e["has"][2] else None
        return f"attributes({fld})[{a}:{b}:{c}]", lambda h: np.array(h.attributes(fld)[a:b:c]), None
    if p == "axes":
        w = e["which"]
        return w, lambda h: (np.array(getattr(h, w)) if w != "tracecount" else h.tracecount), None
    if p == "bin":
        return "bin", lambda h: dict(h.bin), None
    if p == "text":
        return "text[0]", lambda h: bytes(h.text[0]), None
    if p == "dt":
        return "tools.dt", ("dt", lambda: segyio.tools.dt(f), lambda: seismic_zfp.tools.dt(g)), None
    if p == "cube":
        return "tools.cube", ("cube", lambda: segyio.tools.cube(S.path), lambda: seismic_zfp.tools.cube(gpath)), "cube"
    if p == "subvolume":
        axes = [np.array(il), np.array(xl), np.array(S.samples).astype(np.int64)]
        idx, sl = [], []
        for k in range(3):
            axv = axes[k]
            n = len(axv)
            inc = int(axv[1] - axv[0])
            lo = int(u[2 * k] * n)
            hi = lo + 1 + int(u[2 * k + 1] * (n - lo))
            stepk = e["k"][k]
            idx.append(slice(lo, hi, stepk))
            start = None if (e["open"][2 * k] and lo == 0) else int(axv[lo])
            stop = (None if e["open"][2 * k + 1] else int(axv[-1] + inc)) if hi == n else int(axv[hi])
            sl.append(slice(start, stop, None if stepk is None else stepk * inc))
        return f"subvolume[{sl}]", ("sub", tuple(idx), lambda: g.subvolume[sl[0], sl[1], sl[2]]), "sub"
    raise ValueError(p)


def documented_lines(ax, a, b, c):
    """segyio's documented meaning of line[a:b:c]: the labels of range(a, b, c) that exist in the file,
    an omitted start/stop being the first / one past the last label in the direction of the step."""
    inc = c is None or c > 0
    if a is None:
        a = min(ax) if inc else max(ax)
    if b is None:
        b = max(ax) + 1 if inc else min(ax) - 1
    have = set(ax)
    return [ax.index(x) for x in range(a, b, 1 if c is None else c) if x in have]


def segyio_follows_its_documentation(ra, thunk, ax, S, axis):
    """On an axis carrying a label <= 0 segyio's slice arithmetic (slice.indices on labels) reads some
    bounds as ordinals from the end.  Such expressions have no agreed meaning and are not compared;
    everything segyio answers as documented is."""
    want = documented_lines(ax, *thunk.abc)
    if ra[0] != "ok" or ra[1][0] != "seq" or len(ra[1][1]) != len(want):
        return False
    for el, w in zip(ra[1][1], want):
        if el[0] != "array" or w not in position(el[1], S, axis):
            return False
    return True


def position(arr, S, axis):
    """Which item of the source segyio returned: matched by value against the source cube."""
    cube = S.cube
    if axis == 0:
        cands = [i for i in range(cube.shape[0]) if arr.shape == cube[i].shape and np.array_equal(arr, cube[i])]
    elif axis == 1:
        cands = [i for i in range(cube.shape[1]) if arr.shape == cube[:, i].shape and np.array_equal(arr, cube[:, i])]
    elif axis == 2:
        cands = [i for i in range(cube.shape[2]) if arr.shape == cube[:, :, i].shape and np.array_equal(arr, cube[:, :, i])]
    else:
        flat = cube.reshape(-1, cube.shape[2])
        cands = [i for i in range(flat.shape[0]) if arr.shape == flat[i].shape and np.array_equal(arr, flat[i])]
    return cands


def vslice(V, axis, i):
    if axis == 0:
        return V[i]
    if axis == 1:
        return V[:, i]
    if axis == 2:
        return V[:, :, i]
    return V.reshape(-1, V.shape[2])[i]


def compare_elem(desc, a, b, S, V, axis, k=None):
    tag = desc if k is None else f"{desc} element {k}"
    if a[0] != b[0]:
        raise Violation("emulation-kind", f"{tag}: segyio gives {a[0]}, emulator {b[0]}")
    if a[0] == "array":
        if axis in (0, 1, 2, "trace"):
            if a[1].shape != b[1].shape:
                raise Violation("emulation-shape", f"{tag}: segyio shape {a[1].shape}, emulator {b[1].shape}")
            cands = position(a[1], S, axis)
            if not cands:
                raise RuntimeError(f"harness: cannot locate segyio's result of {tag} in the source cube")
            if not any(codec.bits_equal(b[1], vslice(V, axis, i)) for i in cands):
                raise Violation("emulation-position", f"{tag}: segyio returned item {cands} of the axis; the emulator's array is not the decoded volume there")
        else:
            if a[1].shape != b[1].shape or not np.array_equal(a[1].astype(np.float64), b[1].astype(np.float64)):
                raise Violation("emulation-values", f"{tag}: segyio {a[1][:6]}.. shape {a[1].shape}, emulator {np.asarray(b[1])[:6]}.. shape {b[1].shape}")
    elif a[0] == "dict":
        if a[1] != b[1]:
            bad = {k_: (a[1].get(k_), b[1].get(k_)) for k_ in set(a[1]) | set(b[1]) if a[1].get(k_) != b[1].get(k_)}
            raise Violation("emulation-header", f"{tag}: field -> (segyio, emulator): {dict(list(bad.items())[:5])}")
    elif a[0] == "scalar":
        if abs(a[1] - b[1]) > 1e-6 * max(1.0, abs(a[1])):
            raise Violation("emulation-scalar", f"{tag}: segyio {a[1]}, emulator {b[1]}")
    elif a[0] == "bytes":
        if a[1] != b[1]:
            raise Violation("emulation-bytes", f"{tag}: {len(a[1])} bytes vs {len(b[1])} bytes")
    elif a[0] == "seq":
        if len(a[1]) != len(b[1]):
            raise Violation("emulation-length", f"{desc}: segyio yields {len(a[1])} items, emulator {len(b[1])}")
        for j, (x, y) in enumerate(zip(a[1], b[1])):
            compare_elem(desc, x, y, S, V, axis, j)


def run_case(case, ctx):
    import segyio
    import seismic_zfp
    d = ctx.tmp()
    S = sources.build(case["src"], d)
    sgz = os.path.join(d, "o.sgz")
    conv.segy_convert(S.path, sgz, case["bpv"], tuple(case.get("bs", (4, 4, -1))), header_detection=case.get("mode", "exhaustive"))
    V = spec.SgzSpec(conv.read_bytes(sgz)).volume()
    sigs, labels = [], []
    src = case["src"]
    order = ("desc" if src["il"][1] < 0 else "asc", "desc" if src["xl"][1] < 0 else "asc")
    incs = (abs(src["il"][1]), abs(src["xl"][1]))
    il, xl = [int(v) for v in S.ilines], [int(v) for v in S.xlines]
    with segyio.open(S.path, strict=False) as f, seismic_zfp.open(sgz) as g:
        for e in case["prog"]:
            desc, thunk, axis = build_expr(e, S, f, g, sgz)
            if isinstance(thunk, tuple):
                if thunk[0] == "sub":
                    _, idx, call = thunk
                    try:
                        got = call()
                    except Exception as ex:
                        raise Violation("emulation-subvolume-exception", f"{desc}: {type(ex).__name__}: {ex}")
                    want = V[idx]
                    if got.shape != want.shape or not codec.bits_equal(got, want):
                        raise Violation("emulation-subvolume", f"{desc}: shape {got.shape} vs {want.shape}")
                    labels.append("subvolume")
                    sigs.append([order, incs, "subvolume", e["k"], e["open"][:2]])
                    continue
                _, fa, fb = thunk
                ra, rb = ("ok", fa()), None
                try:
                    rb = ("ok", fb())
                except Exception as ex:
                    raise Violation("emulation-raises", f"{desc}: segyio succeeds, emulator raises {type(ex).__name__}: {ex}")
                if thunk[0] == "cube":
                    if rb[1].shape != ra[1].shape or not codec.bits_equal(rb[1], V):
                        raise Violation("emulation-cube", f"{desc}: shape {rb[1].shape} vs segyio {ra[1].shape}, or not the decoded volume")
                else:
                    compare_elem(desc, materialise(ra[1]), materialise(rb[1]), S, V, None)
                labels.append(e["p"])
                continue
            try:
                ra = ("ok", materialise(thunk(f)))
            except Exception as ex:
                ra = ("exc", ex)
            try:
                rb = ("ok", materialise(thunk(g)))
            except Exception as ex:
                rb = ("exc", ex)
            if hasattr(thunk, "abc") and min(il if axis == 0 else xl) <= 0:
                labels.append("label<=0:" + e["p"])
                if not segyio_follows_its_documentation(ra, thunk, il if axis == 0 else xl, S, axis):
                    labels.append("segyio-departs-from-its-documentation")
                    continue
            if ra[0] == "exc":
                if rb[0] != "exc":
                    raise Violation("emulation-accepts-what-segyio-rejects", f"{desc}: segyio raises {type(ra[1]).__name__}, emulator returns {rb[1][0]}")
                labels.append(e["p"] + ":both-raise")
            else:
                if rb[0] == "exc":
                    raise Violation("emulation-raises", f"{desc}: segyio succeeds, emulator raises {type(rb[1]).__name__}: {rb[1]}")
                compare_elem(desc, ra[1], rb[1], S, V, axis)
                labels.append(e["p"])
            nontriv = "desc" in order or incs != (1, 1) or (e["p"] in ("line_slice", "ord_slice") and (not all(e["has"]) or e.get("step", 1) < 0))
            if nontriv:
                sigs.append([order, incs, e["p"], e.get("acc"), e.get("has"), e.get("k", e.get("step"))])
    return {"sigs": sigs, "labels": labels + ["order:%s/%s" % order], "evals": len(case["prog"])}


def shard_main(ctx):
    ctx.explore("emulation", cases(), run_case, ctx.n(180, 2000))


def replay(case, ctx):
    run_case(case, ctx)

"""C06 SEG-Y export round trip."""
import os
import numpy as np
from hypothesis import strategies as st

from .. import files, codec, conv, gen, iomodel, ops, sgy, sources
from ..core import Violation
from ..spec import FIELDS

META = {
    "level": "exploration",
    "rule": ("case = generated SEG-Y (regular / irregular / 2D, IBM or IEEE, arbitrary header content with constant "
             "delay time, 0-2 extended textual headers) -> SGZ (any valid setting; detection thorough, exhaustive or "
             "heuristic within its precondition) -> SEG-Y through SgzConverter.convert_to_segy or the sgz2sgy CLI; "
             "segyio on the exported file vs segyio on the original (geometry, sorting, trace count, sample axis, "
             "first 3600 bytes, all 89 fields of every trace) and vs SgzReader.get_trace (samples: exact for IEEE, "
             "relative 2^-20 for IBM); non-trivial = irregular or 2D or IBM or >=3 stored arrays or ext headers; "
             "distinct = (geometry, format, rate, layout, n_arrays class, ext, via)"),
    "assumptions": [
        "segyio is the judge of what both SEG-Y files contain",
        "IBM tolerance: |a-b| <= 2^-20 |b| + 1.2e-38 (hex-normalised 24-bit mantissa; denormals excused)",
        "the content of extended textual headers is not stored in SGZ; only their announced count (room) is compared",
    ],
}


@st.composite
def cases(draw):
    geom = draw(st.sampled_from(["regular", "regular", "irregular", "2d"]))
    src = draw(sources.segy_source(geom=geom, max_dim=10, max_ns=30, allow_mid=True))
    if geom == "2d":
        rate, bs = draw(st.sampled_from([s for s in gen.SETTINGS_2D if s[0] >= 1]))
    else:
        rate, bs = draw(st.sampled_from(gen.SETTINGS_3D))
    mode = draw(st.sampled_from(["thorough", "exhaustive", "heuristic"]))
    # the exporting object is an SgzReader: it may be opened with preload and may have served other calls first
    before = draw(st.lists(st.sampled_from(["gen_trace_header", "get_tracefield_values", "get_trace", "convert_to_segy"]),
                           max_size=3)) if draw(st.integers(0, 2)) == 0 else []
    prior = draw(st.integers(0, 2 ** 16)) if draw(st.integers(0, 3)) == 0 else None
    return {"src": src, "setting": {"rate": rate, "blockshape": list(bs)}, "mode": mode, "before": before,
            **({"prior": prior} if prior is not None else {}),
            "preload": draw(st.sampled_from([False, False, True])), "u": [draw(st.floats(0, 1, exclude_max=True)) for _ in range(3)],
            "via": draw(st.sampled_from(["api", "api", "cli"])),
            "src_form": draw(st.sampled_from(["str", "str", "path", "bytes", "fileobj", "nofd", "blob", "blob", "relative"])),
            "out_form": draw(st.sampled_from(["str", "str", "path"]))}


def run_case(case, ctx):
    if case.get("check") == "big-export":
        return big_export(case, ctx)
    from seismic_zfp.read import SgzReader
    from seismic_zfp.conversion import SgzConverter
    d = ctx.tmp()
    if case.get("prior") is not None and case["src"]["geom"] != "irregular":
        # an earlier conversion in this process of a survey of the same geometry with constant free header
        # fields, stored under the same file name
        pdesc = dict(case["src"], fields={}, values={"kind": "gauss", "vseed": case["prior"]}, text_seed=case["prior"] % 997)
        P = sources.build(pdesc, d)
        conv.segy_convert(P.path, os.path.join(d, "prior.sgz"), case["setting"]["rate"], tuple(case["setting"]["blockshape"]),
                          header_detection=case["mode"])
    S = sources.build(case["src"], d)
    sources.annotate(case, S)
    geom = case["src"]["geom"]
    if case["mode"] == "heuristic" and not S.heuristic_ok:
        return {"sig": None, "labels": ["outside_precondition"]}
    rate, bs = case["setting"]["rate"], tuple(case["setting"]["blockshape"])
    sgz = os.path.join(d, "o.sgz")
    conv.segy_convert(S.path, sgz, rate, bs, header_detection=case["mode"])
    out = os.path.join(d, "back.sgy")
    conv.leave_stale(out, repr(case["src"].get("values")) + case["mode"])
    if case["via"] == "api":
        # the SGZ is named (str, Path, bytes) or handed over as an open file, a file-like object without an OS
        # descriptor, or a blob client
        opened = []
        form = case.get("src_form") or "str"
        backend = iomodel.CountingFile(sgz) if form == "nofd" else iomodel.CountingBlob(sgz) if form == "blob" else None
        if form == "relative":
            c = ops.open_relative(SgzConverter, sgz, preload=bool(case.get("preload")))
        else:
            c = SgzConverter(backend if backend is not None else ops.in_form(sgz, form, opened), preload=bool(case.get("preload")))
        try:
            with conv.env.quiet():
                u = case.get("u", [0.5, 0.5, 0.5])
                for k, b in enumerate(case.get("before", [])):
                    try:
                        if b == "gen_trace_header":
                            c.gen_trace_header(int(u[k] * c.tracecount))
                        elif b == "get_tracefield_values" and len(c.stored_header_keys):
                            c.get_tracefield_values(list(c.stored_header_keys)[int(u[k] * len(c.stored_header_keys))])
                        elif b == "get_trace":
                            c.get_trace(int(u[k] * c.tracecount))
                        elif b == "convert_to_segy":
                            c.convert_to_segy(os.path.join(d, "other.sgy"))
                    except Exception as e:
                        raise Violation(f"earlier-call-failed:{b}", f"{b} on the exporting object: {type(e).__name__}: {e}")
                c.convert_to_segy(out if case.get("out_form") != "path" else ops.in_form(out, "path"))
        finally:
            c.close()
            if backend is not None:
                backend.close()
            for f in opened:
                f.close()
    else:
        code, exc = conv.cli_invoke(["sgz2sgy", sgz, out])
        if code != 0:
            raise Violation("cli-failed", f"sgz2sgy exit {code}: {exc!r}")
    flat = geom != "regular"
    try:
        a = sgy.read_source(S.path, ignore_geometry=flat)
        b = sgy.read_source(out, ignore_geometry=flat)
    except Exception as e:
        raise Violation("exported-file-unreadable", f"segyio: {type(e).__name__}: {e}")
    if b["tracecount"] != a["tracecount"]:
        raise Violation("tracecount", f"exported {b['tracecount']} vs original {a['tracecount']}")
    if not flat:
        if b["ilines"] is None or not np.array_equal(a["ilines"], b["ilines"]) or not np.array_equal(a["xlines"], b["xlines"]):
            raise Violation("geometry", f"ilines {b['ilines']} vs {a['ilines']}; xlines {b['xlines']} vs {a['xlines']}")
        if a["sorting"] != b["sorting"]:
            raise Violation("sorting", f"{b['sorting']} vs {a['sorting']}")
    if len(a["samples"]) != len(b["samples"]) or not np.allclose(a["samples"], b["samples"], rtol=1e-9, atol=1e-9):
        raise Violation("sample-axis", f"{b['samples'][:3]} vs {a['samples'][:3]}")
    if a["file_header"] != b["file_header"]:
        diff = [i for i in range(3600) if a["file_header"][i] != b["file_header"][i]]
        raise Violation("file-header-bytes", f"{len(diff)} of the first 3600 bytes differ, first at {diff[0]}")
    for i in range(a["tracecount"]):
        for f in FIELDS:
            if a["headers"][i][f] != b["headers"][i][f]:
                raise Violation("trace-header", f"trace {i} field {f}: exported {b['headers'][i][f]} vs original {a['headers'][i][f]}")
    # "the values decoded from the SGZ": the harness's spec-only decode of the file, trace by trace in file
    # order (grid positions of the populated traces), not anything the library's own reader returns
    T = files.Truth(conv.read_bytes(sgz))
    dec = np.stack([np.asarray(T.trace(i), dtype=np.float32) for i in range(T.n_tr)]) if T.n_tr else np.zeros((0, T.n_s), np.float32)
    if dec.shape[0] != a["tracecount"]:
        raise Violation("tracecount", f"the SGZ holds {dec.shape[0]} traces, the source {a['tracecount']}")
    with SgzReader(sgz) as r:
        n_arrays = r.n_header_arrays
    if a["format"] == 5:
        if not codec.bits_equal(b["traces"], dec):
            raise Violation("samples-ieee", codec.first_diff(b["traces"], dec))
    else:
        err = np.abs(b["traces"].astype(np.float64) - dec.astype(np.float64))
        tol = 2.0 ** -20 * np.abs(dec.astype(np.float64)) + 1.2e-38
        if (err > tol).any():
            i = np.argwhere(err > tol)[0]
            raise Violation("samples-ibm", f"trace {i[0]} sample {i[1]}: exported {b['traces'][tuple(i)]!r} vs decoded {dec[tuple(i)]!r}")
    ext = case["src"]["ext"]
    nontriv = geom != "regular" or a["format"] == 1 or n_arrays >= 3 or ext
    return {"sig": [geom, a["format"], rate, list(bs), min(n_arrays, 5), ext, case["via"], case["mode"]] if nontriv else None,
            "labels": [geom, f"fmt{a['format']}", f"ext{ext}", case["via"], case["mode"]]
            + ["before:" + b for b in (case.get("before", []) if case["via"] == "api" else [])]
            + (["preload"] if case.get("preload") and case["via"] == "api" else [])
            + (["src:" + (case.get("src_form") or "str")] if case["via"] == "api" else [])}


# ---- one export of more than 65 536 traces, every run (vp/big.py) -------------------------------------------------
def big_export(case, ctx):
    """SEG-Y (66 306 traces, IEEE) -> SGZ -> SEG-Y, compared byte-wise: the exported file must hold the original's
    3600 header bytes, every 240-byte trace header (all 89 fields cover it), and as samples the values the SGZ
    decodes to; same length, hence same trace count."""
    from seismic_zfp.conversion import SgzConverter
    from seismic_zfp.read import SgzReader
    from .. import big
    d = ctx.tmp()
    S = sources.build(big.REGULAR, d)
    sgz, out = os.path.join(d, "o.sgz"), os.path.join(d, "back.sgy")
    conv.segy_convert(S.path, sgz, 16, (4, 4, 128), header_detection=case["mode"], reduce_iops=case["reduce"])
    if case["via"] == "api":
        c = SgzConverter(sgz)
        try:
            with conv.env.quiet():
                c.convert_to_segy(out)
        finally:
            c.close()
    else:
        code, exc = conv.cli_invoke(["sgz2sgy", sgz, out])
        if code != 0:
            raise Violation("cli-failed", f"sgz2sgy exit {code}: {exc!r}")
    a, b = np.fromfile(S.path, dtype=np.uint8), np.fromfile(out, dtype=np.uint8)
    ns, n = big.REGULAR["ns"], big.REGULAR["n_il"] * big.REGULAR["n_xl"]
    rec = 240 + 4 * ns
    if len(b) != len(a):
        raise Violation("tracecount", f"exported file holds {(len(b) - 3600) / rec:g} traces of {ns} samples, the original {n}")
    if not np.array_equal(a[:3600], b[:3600]):
        raise Violation("file-header-bytes", "first 3600 bytes differ (survey of 66 306 traces)")
    ta, tb = a[3600:].reshape(n, rec), b[3600:].reshape(n, rec)
    bad = np.flatnonzero((ta[:, :240] != tb[:, :240]).any(axis=1))
    if len(bad):
        raise Violation("trace-header", f"{len(bad)} of {n} trace headers differ from the original's, first at trace {int(bad[0])}")
    with SgzReader(sgz) as r:
        vol = r.read_volume()
    got = tb[:, 240:].copy().view(">f4").reshape(n, ns).astype(np.float32)
    if not codec.bits_equal(got, vol.reshape(n, ns)):
        raise Violation("samples-ieee", f"exported samples differ from the SGZ's decoded values: {codec.first_diff(got, vol.reshape(n, ns))}")
    return {"sig": ["big-export", case["mode"], case["via"], case["reduce"]], "labels": ["big-export", case["via"]]}


def shard_main(ctx):
    if ctx.shard in (1, 4):
        case = {"check": "big-export", "mode": "heuristic" if ctx.shard == 1 else "thorough", "via": "api" if ctx.shard == 1 else "cli",
                "reduce": ctx.shard == 4}
        try:
            ctx.evaluate(case, run_case)
        except Violation as v:
            ctx.failures.append({"kind": v.kind, "detail": v.detail, "case": case})
            return
    ctx.explore("export", cases(), run_case, ctx.n(200, 2000))


def replay(case, ctx):
    run_case(case, ctx)

"""C05 geometry preservation: axes and counts of the SGZ equal those of the source."""
import os
import numpy as np
from hypothesis import strategies as st

from .. import conv, files, gen, sgy, sources, spec
from ..core import Violation

META = {
    "level": "exploration",
    "rule": ("case = (start, step, count) for inlines and crosslines independently (any sign, |values| < 2^31, "
             "count >= 2), sample interval in whole microseconds (uniform over 1..65535 and a set of values whose "
             "millisecond form is inexact), whole-millisecond start time in -32768..32767, 2..1500 samples; routes: "
             "SEG-Y with either reader, NumPy with int/float/list axes, generated ZGY (pyzgy writer), optionally followed by crop / re-block / "
             "export; plus a reader-side sweep opening spec-written files for (interval, start, count) triples; "
             "oracle: ilines/xlines equal exactly (values and dtype intc), len(zslices) == n, |zslices[i]-src[i]| <= "
             "1e-9 + 1e-12|src[i]|, tracecount, structured; emulator axes identical; non-trivial = negative start or "
             "|step| != 1 or interval not a multiple of 250 us; distinct = per-axis (sign, step class, count class) + interval class"),
    "assumptions": [
        "SEG-Y route: segyio's ilines/xlines/samples of the generated file are the source axes; intervals above 32767 us are exercised through the NumPy route and the reader sweep only (2-byte signed field for segyio)",
        "ZGY route: the source axes are the ones pyzgy reports for the generated file (ZGY stores annotation and sample interval as float32, so the interval is the float32 value nearest to the requested microseconds); line numbers within +-1e6",
        "sample-axis tolerance 1e-9 absolute + 1e-12 relative stands for 'float rounding of start + i*interval'",
    ],
}

ODD_INTERVALS = [1, 3, 7, 333, 1001, 1111, 4001, 2999, 65535, 32767, 250, 500, 125, 12345, 33333, 999, 1999]


def interval_st(maxv):
    return st.one_of(st.integers(1, maxv), st.sampled_from([v for v in ODD_INTERVALS if v <= maxv]),
                     st.sampled_from([4000, 2000, 1000]))


@st.composite
def big_axis(draw, count):
    lim = 2 ** 31 - 1
    step = draw(st.one_of(st.sampled_from([1, -1, 2, -3, 5, 100, -1000]), st.integers(-10 ** 6, 10 ** 6).filter(lambda v: v != 0)))
    if draw(st.integers(0, 7)) == 0 and count >= 3:
        # an axis spanning more than 2^31 although every label and the increment fit an int32
        step = draw(st.integers(2 ** 30 // (count - 1), min(lim, (2 ** 32 - 2) // (count - 1)))) * draw(st.sampled_from([1, -1]))
        span = abs(step) * (count - 1)
        lo = draw(st.integers(-lim, lim - span))
        return [lo if step > 0 else lo + span, step]
    room = lim - abs(step) * count
    start = draw(st.one_of(st.integers(-50, 5000), st.integers(-room, room), st.sampled_from([-room, room, 0, -1])))
    return [start, step]


@st.composite
def small_axis(draw, count):
    step = draw(st.one_of(st.sampled_from([1, -1, 2, -3, 5, 100]), st.integers(-1000, 1000).filter(lambda v: v != 0)))
    start = draw(st.one_of(st.integers(-50, 5000), st.integers(-10 ** 6, 10 ** 6), st.sampled_from([0, -1])))
    return [start, step]


def axis_class(a, n):
    start, step = a
    return ["neg" if start < 0 else "zero" if start == 0 else "pos", "desc" if step < 0 else "asc",
            "unit" if abs(step) == 1 else "nonunit", "big" if abs(start) > 2 ** 24 else "small"]


@st.composite
def cases(draw):
    route = draw(st.sampled_from(["segy", "segy-reduced", "numpy", "numpy", "zgy"]))
    n_il, n_xl = draw(st.integers(2, 9)), draw(st.integers(2, 9))
    ns = draw(st.one_of(st.integers(2, 12), st.integers(2, 1500)))
    if ns > 100:
        n_il, n_xl = min(n_il, 3), min(n_xl, 3)
    c = {"route": route, "shape": [n_il, n_xl, ns], "il": draw(big_axis(n_il)), "xl": draw(big_axis(n_xl)),
         "dt_us": draw(interval_st(32767 if route != "numpy" else 65535)),
         "delay": draw(st.one_of(st.sampled_from([0, 0, 100, -8]), st.integers(-32768, 32767))),
         "values": draw(gen.values_spec), "fmt": draw(st.sampled_from([1, 5])),
         "then": draw(st.sampled_from([None, None, "crop", "reblock", "export"]))}
    if route == "numpy":
        c["axis_type"] = draw(st.sampled_from(["int64", "int32", "float64", "list"]))
    if route == "zgy":
        # ZGY keeps annotation and the sample axis as float32: line numbers stay exactly representable
        c["il"], c["xl"] = draw(small_axis(n_il)), draw(small_axis(n_xl))
        c["delay"] = draw(st.one_of(st.sampled_from([0, 0, 100, -8]), st.integers(-4000, 4000)))
        # openzgy's writer builds a 256-bin histogram of the samples and fails on degenerate value ranges
        c["values"] = {"kind": draw(st.sampled_from(["smooth", "gauss", "steps"])), "vseed": c["values"]["vseed"]}
    if c["then"] == "reblock":
        c["setting"] = [2, [4, 4, 1024]]
    else:
        c["setting"] = draw(st.sampled_from([[4, [4, 4, 512]], [8, [4, 4, 256]], [2, [64, 64, 4]], [8, [8, 8, 64]]]))
    return c


def check_axes(path, il, xl, samples, n_traces, what):
    from seismic_zfp.read import SgzReader
    import seismic_zfp
    with SgzReader(path) as r:
        for name, got, want in (("ilines", r.ilines, il), ("xlines", r.xlines, xl)):
            if got.dtype != np.dtype("intc"):
                raise Violation(f"axis-dtype:{what}", f"{name} dtype {got.dtype}")
            if len(got) != len(want) or not np.array_equal(got.astype(np.int64), np.asarray(want, dtype=np.int64)):
                raise Violation(f"axis-values:{what}:{name}", f"got {got[:5]}..({len(got)}) want {np.asarray(want)[:5]}..({len(want)})")
        z = np.asarray(r.zslices, dtype=np.float64)
        w = np.asarray(samples, dtype=np.float64)
        if len(z) != len(w):
            raise Violation(f"sample-count:{what}", f"{len(z)} samples, source has {len(w)} (first {z[:3]}, interval {w[1]-w[0]})")
        bad = np.abs(z - w) > 1e-9 + 1e-12 * np.abs(w)
        if bad.any():
            i = int(np.argmax(bad))
            raise Violation(f"sample-axis:{what}", f"sample {i}: {z[i]!r} vs source {w[i]!r} (interval {w[1]-w[0]!r})")
        if r.tracecount != n_traces:
            raise Violation(f"tracecount:{what}", f"{r.tracecount} != {n_traces}")
        if r.structured is not True:
            raise Violation(f"structured:{what}", f"{r.structured}")
        rz, ri, rx = np.array(r.zslices), np.array(r.ilines), np.array(r.xlines)
    with seismic_zfp.open(path) as e:
        if not (np.array_equal(e.ilines, ri) and np.array_equal(e.xlines, rx) and np.array_equal(e.samples, rz)):
            raise Violation(f"emulator-axes:{what}", "emulator axes differ from the reader's")
        if e.tracecount != n_traces:
            raise Violation(f"emulator-tracecount:{what}", f"{e.tracecount}")


def run_case(case, ctx):
    d = ctx.tmp()
    n_il, n_xl, ns = case["shape"]
    il = gen.axis_values(*case["il"], n_il)
    xl = gen.axis_values(*case["xl"], n_xl)
    data = gen.make_values((n_il, n_xl, ns), case["values"]["kind"], case["values"]["vseed"])
    rate, bs = case["setting"][0], tuple(case["setting"][1])
    out = os.path.join(d, "o.sgz")
    if case["route"] == "numpy":
        samples = case["delay"] + (case["dt_us"] / 1000.0) * np.arange(ns)
        mk = {"int64": lambda v: np.array(v, dtype=np.int64), "int32": lambda v: np.array(v, dtype=np.int32),
              "float64": lambda v: np.array(v, dtype=np.float64), "list": list}[case["axis_type"]]
        conv.numpy_convert(data, out, rate, bs, ilines=mk(il), xlines=mk(xl), samples=samples)
        src_il, src_xl, src_s = il, xl, samples
    elif case["route"] == "zgy":
        path = os.path.join(d, "in.zgy")
        z = sources.write_zgy(path, data, case["il"], case["xl"], case["delay"], case["dt_us"] / 1000.0)
        src_il, src_xl, src_s = list(z["ilines"]), list(z["xlines"]), z["samples"]
        if [int(v) for v in src_il] != il or [int(v) for v in src_xl] != xl:
            raise RuntimeError(f"harness: pyzgy reads other line numbers than written: {src_il} {il}")
        conv.segy_convert(path, out, rate, bs, cls="ZgyConverter")
    else:
        path = os.path.join(d, "in.sgy")
        cols = sgy.base_cols(n_il * n_xl, ns, case["dt_us"], case["delay"])
        cols.update(sgy.regular_cols(il, xl))
        sgy.write_segy(path, data.reshape(-1, ns), cols, case["dt_us"], fmt=case["fmt"], grid=(il, xl))
        src = sgy.read_source(path)
        src_il, src_xl, src_s = src["ilines"], src["xlines"], src["samples"]
        if list(src_il) != il or list(src_xl) != xl:
            raise RuntimeError("harness: segyio reads other line numbers than written")
        conv.segy_convert(path, out, rate, bs, reduce_iops=(case["route"] == "segy-reduced"), header_detection="thorough")
    check_axes(out, src_il, src_xl, src_s, n_il * n_xl, "converted")
    then = case["then"]
    if then == "crop":
        from seismic_zfp.cropping import SgzCropper
        o2 = os.path.join(d, "c.sgz")
        i0, i1 = (n_il // 2 // bs[0]) * bs[0], n_il
        x0, x1 = 0, min(n_xl, max(bs[1], (n_xl // 2 // bs[1]) * bs[1]))
        if case["values"]["vseed"] % 2:
            # a box ending inside the last, partly filled block: the cropper widens it to the block boundary,
            # clipped to the cube, so the axes reported are those of the clipped box
            req_i1 = max(i0 + 1, n_il - 1)
            i1 = min(n_il, -(-req_i1 // bs[0]) * bs[0])
        else:
            req_i1 = i1
        c = SgzCropper(out)
        try:
            c.write_cropped_file_by_indexes(o2, (i0, req_i1), (x0, x1), None)
        finally:
            c.close()
        check_axes(o2, src_il[i0:i1], src_xl[x0:x1], src_s, (i1 - i0) * (x1 - x0), "cropped")
    elif then == "reblock":
        from seismic_zfp.conversion import SgzConverter
        o2 = os.path.join(d, "a.sgz")
        c = SgzConverter(out)
        try:
            c.convert_to_adv_sgz(o2)
        finally:
            c.close()
        check_axes(o2, src_il, src_xl, src_s, n_il * n_xl, "reblocked")
    elif then == "export" and (case["route"] in ("segy", "segy-reduced")
                               or (case["route"] == "numpy" and case["dt_us"] <= 32767 and -32768 <= case["delay"] <= 32767)):
        # (a SEG-Y trace header holds the interval and the whole-millisecond delay in 16-bit fields)
        from seismic_zfp.conversion import SgzConverter
        o2 = os.path.join(d, "e.sgy")
        c = SgzConverter(out)
        try:
            c.convert_to_segy(o2)
        finally:
            c.close()
        e = sgy.read_source(o2)
        if e["ilines"] is None or list(e["ilines"]) != il or list(e["xlines"]) != xl:
            raise Violation("axis-values:exported", f"ilines {e['ilines']} xlines {e['xlines']}")
        w = np.asarray(src_s)
        if len(e["samples"]) != len(w) or (np.abs(e["samples"] - w) > 1e-9 + 1e-6 * np.abs(w) + 1e-3).any():
            raise Violation("sample-axis:exported", f"{e['samples'][:3]} vs {w[:3]}")
    dtc = "ms-mult" if case["dt_us"] % 1000 == 0 else ("quarter" if case["dt_us"] % 250 == 0 else "odd")
    nontriv = case["il"][0] < 0 or case["xl"][0] < 0 or abs(case["il"][1]) != 1 or abs(case["xl"][1]) != 1 or case["dt_us"] % 250
    return {"sig": [case["route"], axis_class(case["il"], n_il), axis_class(case["xl"], n_xl), dtc,
                    "neg" if case["delay"] < 0 else "pos", "long" if ns > 100 else "short", then] if nontriv else None,
            "labels": [case["route"], "dt:" + dtc, "then:" + str(then)]}


# ---- reader-side sweep of the axis arithmetic --------------------------------------------------
@st.composite
def sweep_cases(draw):
    return {"dt_us": draw(interval_st(65535)), "z0": draw(st.one_of(st.sampled_from([0, 8, 100, -4]), st.integers(-32768, 32767))),
            "ns": draw(st.one_of(st.integers(2, 20), st.integers(2, 1500))), "il": draw(big_axis(2)), "xl": draw(big_axis(3)),
            "version": draw(st.sampled_from(["0.1.7", "0.2.1", "0.2.8", "1.0.0"]))}


def run_sweep(case, ctx):
    d = ctx.tmp()
    ns = case["ns"]
    data = np.zeros((2, 3, ns), dtype=np.float32)
    il, xl = gen.axis_values(*case["il"], 2), gen.axis_values(*case["xl"], 3)
    raw = spec.write_sgz(data, 4, (4, 4, 512), version=spec.parse_version(case["version"]), ilines=il, xlines=xl,
                         z0=case["z0"], dz_us=case["dt_us"], arrays={189: np.repeat(il, 3), 193: np.tile(xl, 2)})
    p = os.path.join(d, "f.sgz")
    open(p, "wb").write(raw)
    samples = case["z0"] + (case["dt_us"] / 1000.0) * np.arange(ns)
    check_axes(p, il, xl, samples, 6, "spec-file")
    dtc = "ms-mult" if case["dt_us"] % 1000 == 0 else ("quarter" if case["dt_us"] % 250 == 0 else "odd")
    return {"sig": ["sweep", case["dt_us"] % 1000, ns % 7, case["z0"] < 0, case["version"]], "labels": ["sweep", "dt:" + dtc]}


def all_small_intervals(ctx):
    """Every interval 1..2000 us and the 16-bit boundaries, a few (start, count) each, sharded."""
    ivs = list(range(1, 2001)) + [32767, 32768, 65534, 65535]
    n = 0
    for dt in ivs[ctx.shard::ctx.nshards]:
        for z0, ns in ((0, 2), (8, 2), (-3, 7), (100, 333), (1, 1001)):
            case = {"check": "sweep", "dt_us": dt, "z0": z0, "ns": ns, "il": [1, 1], "xl": [1, 1], "version": "0.2.8"}
            try:
                run_sweep(case, ctx)
            except Violation as v:
                ctx.fail(case, v)
                return
            n += 1
    ctx.evaluations += n
    ctx.sigs.add(f"all-intervals-shard{ctx.shard}")
    ctx.extra["interval_sweep"] = n


def run_case_dispatch(case, ctx):
    return run_sweep(case, ctx) if case["check"] == "sweep" else run_case(case, ctx)


def shard_main(ctx):
    all_small_intervals(ctx)
    if ctx.failures:
        return
    if not ctx.explore("sweep", sweep_cases(), run_case_dispatch, ctx.n(150, 4000)):
        return
    ctx.explore("convert", cases(), run_case_dispatch, ctx.n(60, 1200))


def replay(case, ctx):
    run_case_dispatch(case, ctx)

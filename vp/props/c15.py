"""C15 history independence: caches, preload and shared handles never change a result."""
import os
import numpy as np
from hypothesis import strategies as st
from hypothesis.stateful import RuleBasedStateMachine, initialize, invariant, precondition, rule

from .. import files, ops
from ..core import Violation, library_exception

META = {
    "level": "exploration",
    "rule": ("stateful (hypothesis RuleBasedStateMachine): a file is chosen from a pool of eleven prepared files (261 block columns on four inlines, a 20 MiB data section, a single group of four inlines, a wide short cube, 4x4xN with "
             "two z-blocks, 64x64x4, 8x8x64, irregular, 2D, old format version); rules: open_reader(slot of 3, preload, "
             "chunk_cache_size in {1, 2, default}), close_reader, read(slot, any in-range call of any method), "
             "emu(any accessor expression; the seven accessors share one handle), emu_close, repeat_last, "
             "alternate(a, b); after every step the returned value must equal the precomputed truth for (file, method, "
             "arguments) from the spec-only decode, which implies 'same as on a fresh reader'; histories up to 40 steps; "
             "non-trivial = adjacent pair of calls (repeated identical call, two readers interleaved, accessor "
             "interleaved with another, close/open between reads); distinct = (file, method pair, same/different "
             "reader, preload, cache size)"),
    "assumptions": [
        "truth = spec-only decode of the file; all arguments are in range, so any exception is a violation",
        "readers are opened by path; the emulator is one object whose accessors share one file handle",
    ],
}

POOL = [
    {"kind": "spec", "family": "4x4", "rate": 4, "blockshape": [4, 4, 512], "shape": [9, 10, 530], "version": "0.2.8",
     "values": {"kind": "gauss", "vseed": 11}, "il": [5, 2], "xl": [100, -1], "z0": 0, "dz_us": 4000, "arrays": [1, 189, 193],
     "dups": [[197, 189]]},
    {"kind": "spec", "family": "zs", "rate": 2, "blockshape": [64, 64, 4], "shape": [70, 66, 9], "version": "0.2.8",
     "values": {"kind": "smooth", "vseed": 12}, "il": [1, 1], "xl": [1, 1], "z0": 0, "dz_us": 2000, "arrays": [189, 193]},
    {"kind": "spec", "family": "gen", "rate": 8, "blockshape": [8, 8, 64], "shape": [17, 9, 70], "version": "0.2.8",
     "values": {"kind": "gauss", "vseed": 13}, "il": [10, 1], "xl": [20, 3], "z0": 100, "dz_us": 4000, "arrays": [5, 189, 193]},
    {"kind": "spec", "family": "4x4", "rate": 8, "blockshape": [4, 4, 256], "shape": [7, 6, 20], "version": "0.2.8",
     "values": {"kind": "gauss", "vseed": 14}, "il": [3, 1], "xl": [7, 2], "z0": 0, "dz_us": 4000, "arrays": [1, 189, 193],
     "holes": [0, 9, 10, 41]},
    {"kind": "spec", "family": "2d", "rate": 4, "blockshape": [1, 16, 512], "shape": [37, 600], "version": "0.2.8",
     "values": {"kind": "gauss", "vseed": 15}, "z0": 0, "dz_us": 4000, "arrays": [1, 5]},
    {"kind": "spec", "family": "4x4", "rate": 2, "blockshape": [4, 4, 1024], "shape": [5, 6, 30], "version": "0.1.3",
     "values": {"kind": "smooth", "vseed": 16}, "il": [1, 1], "xl": [1, 1], "z0": 0, "dz_us": 4000, "arrays": [189, 193]},
    {"kind": "spec", "family": "2d", "rate": 8, "blockshape": [1, 4, 1024], "shape": [11, 40], "version": "0.2.8",
     "values": {"kind": "gauss", "vseed": 17}, "z0": 0, "dz_us": 4000, "arrays": [1]},
    # a single group of four inlines: the crossline sets of neighbouring block columns lie back to back in the file
    {"kind": "spec", "family": "4x4", "rate": 4, "blockshape": [4, 4, 512], "shape": [4, 13, 30], "version": "0.2.8",
     "values": {"kind": "gauss", "vseed": 18}, "il": [1, 1], "xl": [1, 1], "z0": 0, "dz_us": 4000, "arrays": [189, 193]},
    # a wide, short cube: more block columns than a remote reader has workers
    {"kind": "spec", "family": "4x4", "rate": 16, "blockshape": [4, 4, 128], "shape": [21, 26, 9], "version": "0.2.8",
     "values": {"kind": "gauss", "vseed": 19}, "il": [100, 2], "xl": [7, 1], "z0": 0, "dz_us": 2000, "arrays": [189, 193]},
    # 261 block columns on one group of inlines
    {"kind": "spec", "family": "4x4", "rate": 32, "blockshape": [4, 4, 64], "shape": [4, 1044, 16], "version": "0.2.8",
     "values": {"kind": "gauss", "vseed": 21}, "il": [1, 1], "xl": [1, 1], "z0": 0, "dz_us": 4000, "arrays": [189, 193]},
    # a data section of 20 MiB (beyond any 16 MiB piece a preload may be fetched in)
    {"kind": "spec", "family": "4x4", "rate": 32, "blockshape": [4, 4, 64], "shape": [64, 64, 1280], "version": "0.2.8",
     "values": {"kind": "smooth", "vseed": 20}, "il": [1, 1], "xl": [1, 1], "z0": 0, "dz_us": 4000, "arrays": [189, 193]},
]

_built = {}


def pool_file(k, ctx):
    if k not in _built:
        d = os.path.join(ctx.work, "pool")
        os.makedirs(d, exist_ok=True)
        _built[k] = files.build(POOL[k], d, name=f"pool{k}.sgz")
    return _built[k]


ALL_METHODS = sorted(set(ops.METHODS_3D_READER + ops.METHODS_2D_READER + ["meta"]))
EMU_METHODS = sorted(set(ops.METHODS_EMU_3D + ["trace", "header", "attributes"]))


class Executor:
    """Executes history steps against the real library; shared by the machine and the replay."""
    def __init__(self, ctx, file_k):
        self.ctx = ctx
        self.k = file_k
        self.path, self.T = pool_file(file_k, ctx)
        self.readers = {}
        self.emu = None
        self.files = []

    def step(self, st_):
        from seismic_zfp.read import SgzReader
        import seismic_zfp
        op = st_["op"]
        if op == "open":
            if st_["slot"] in self.readers:
                self.readers.pop(st_["slot"]).close()
            # the file is named as a str, a pathlib.Path, a bytes path or handed over as an open file object
            if st_.get("form") == "relative":
                # named relative to the directory the program is in at that moment; the program moves on afterwards
                here = os.getcwd()
                os.chdir(os.path.dirname(self.path))
                try:
                    self.readers[st_["slot"]] = SgzReader(os.path.basename(self.path), preload=st_["preload"], chunk_cache_size=st_["cache"])
                finally:
                    os.chdir(here)
                return None
            self.readers[st_["slot"]] = SgzReader(ops.in_form(self.path, st_.get("form", "str"), self.files),
                                                  preload=st_["preload"], chunk_cache_size=st_["cache"])
            return None
        if op == "close":
            r = self.readers.pop(st_["slot"], None)
            if r is not None:
                r.close()
            return None
        if op == "sweep":
            # a program's loop: one trace (the anchor) read again and again while the loop walks along the first inline
            # in steps of one block column, up to 300 columns: more chunk decompressions than any pool or cache holds
            r = self.readers.get(st_["slot"])
            if r is None or self.T.is_2d:
                return None
            T = self.T
            anchor = int(st_["u"] * T.n_tr)
            want_a = T.trace(anchor)
            cols = list(range(0, T.n_xl, 4))[:300]
            for x in cols:
                for t in (anchor, x):
                    if t >= T.n_tr:
                        continue
                    got = np.asarray(r.get_trace(t))
                    want = want_a if t == anchor else T.trace(t)
                    if got.shape != want.shape or not np.array_equal(got.view(np.uint32), np.ascontiguousarray(want).view(np.uint32)):
                        raise Violation("wrong-values:get_trace", f"get_trace({t}) during a sweep over {len(cols)} block columns (anchor trace {anchor}) differs from the true trace")
            return "sweep"
        if op == "emu_close":
            if self.emu is not None:
                self.emu.__exit__(None, None, None)
                self.emu = None
            return None
        a = st_["a"]
        cop = ops.concretise(self.T, a)
        if cop is None:
            return None
        if op == "read":
            r = self.readers.get(st_["slot"])
            if r is None or cop["m"] not in ops.methods_for(self.T, reader_only=True):
                return None
            H = ops.Handles(self.path, self.T, reader=r)
        else:
            if cop["m"] not in ops.methods_for(self.T, emu_only=True):
                return None
            if self.emu is None:
                self.emu = seismic_zfp.open(self.path)
            H = ops.Handles(self.path, self.T)
            H._emu = self.emu
        kind, want = ops.expected(self.T, cop)
        try:
            got = ops.perform(H, cop)
        except Exception as e:
            raise Violation(f"exception-in-history:{cop['m']}", f"{cop}: {type(e).__name__}: {e}")
        ops.compare(kind, got, want, cop)
        return cop["m"]

    def close(self):
        for r in self.readers.values():
            try:
                r.close()
            except Exception:
                pass
        if self.emu is not None:
            try:
                self.emu.__exit__(None, None, None)
            except Exception:
                pass
        for f in self.files:
            try:
                f.close()
            except Exception:
                pass


def run_history(case, ctx):
    ex = Executor(ctx, case["file"])
    labels, sigs = [], []
    prev = None
    try:
        for st_ in case["hist"]:
            try:
                m = ex.step(st_)
            except Violation as v:
                raise Violation(v.kind, f"after {len(labels)} steps: {v.detail}")
            if m is not None:
                who = st_.get("slot", "emu")
                if prev is not None:
                    sigs.append([case["file"], prev[0], m, prev[1] == who, prev[2] == st_.get("a")])
                prev = (m, who, st_.get("a"))
                labels.append(m)
            else:
                labels.append(st_["op"])
    finally:
        ex.close()
    return {"sigs": sigs, "labels": labels}


def make_machine(ctx, state):
    class HistoryMachine(RuleBasedStateMachine):
        def __init__(self):
            super().__init__()
            self.ex = None
            self.case = None
            self.prev = None
            self.dead = False

        @initialize(k=st.integers(0, len(POOL) - 1))
        def choose_file(self, k):
            self.case = {"check": "history", "file": k, "hist": []}
            self.ex = Executor(ctx, k)

        def do(self, st_):
            if self.dead or not ctx.machine_active(state):
                return
            self.case["hist"].append(st_)
            ctx.mark_current(self.case)
            try:
                m = self.ex.step(st_)
            except Violation as v:
                if ctx.machine_failed(state, self.case, v):
                    raise
                self.dead = True   # known finding: stop this history quietly
                return
            except Exception as e:
                v = library_exception(e)
                if v is None:
                    raise
                if ctx.machine_failed(state, self.case, v):
                    raise v
                self.dead = True
                return
            if m is not None:
                who = st_.get("slot", "emu")
                if self.prev is not None:
                    r = self.ex.readers.get(st_.get("slot"))
                    ctx.sigs.add(str([self.case["file"], self.prev[0], m, self.prev[1] == who, self.prev[2] == st_.get("a"),
                                      st_["op"]]))
                self.prev = (m, who, st_.get("a"))
                ctx.labels[m] += 1
            else:
                ctx.labels[st_["op"]] += 1

        @rule(slot=st.integers(0, 2), preload=st.booleans(), cache=st.sampled_from([1, 2, None]), form=st.sampled_from(ops.PATH_FORMS + ["relative"]))
        def open_reader(self, slot, preload, cache, form):
            self.do({"op": "open", "slot": slot, "preload": preload, "cache": cache, "form": form})

        @precondition(lambda self: self.ex is not None and len(self.ex.readers) > 0)
        @rule(slot=st.integers(0, 2))
        def close_reader(self, slot):
            self.do({"op": "close", "slot": slot})

        @precondition(lambda self: self.ex is not None and len(self.ex.readers) > 0)
        @rule(slot=st.integers(0, 2), a=ops.abstract_op(ALL_METHODS))
        def read(self, slot, a):
            if slot not in self.ex.readers:
                slot = sorted(self.ex.readers)[0]
            self.do({"op": "read", "slot": slot, "a": a})

        @precondition(lambda self: self.ex is not None and len(self.ex.readers) > 0)
        @rule(slot=st.integers(0, 2), u=st.floats(0, 1, exclude_max=True))
        def sweep(self, slot, u):
            if slot not in self.ex.readers:
                slot = sorted(self.ex.readers)[0]
            self.do({"op": "sweep", "slot": slot, "u": u})

        @rule(a=ops.abstract_op(EMU_METHODS))
        def emu(self, a):
            self.do({"op": "emu", "a": a})

        @precondition(lambda self: self.ex is not None and self.ex.emu is not None)
        @rule()
        def emu_close(self):
            self.do({"op": "emu_close"})

        @precondition(lambda self: self.case is not None and any(s["op"] in ("read", "emu") for s in self.case["hist"]))
        @rule(other=st.integers(0, 2))
        def repeat_last(self, other):
            last = [s for s in self.case["hist"] if s["op"] in ("read", "emu")][-1]
            self.do(dict(last))
            if last["op"] == "read" and other in self.ex.readers and other != last["slot"]:
                self.do(dict(last, slot=other))     # the same call through another reader

        @precondition(lambda self: self.ex is not None and len(self.ex.readers) > 0)
        @rule(slot=st.integers(0, 2), a=ops.abstract_op(ALL_METHODS), b=ops.abstract_op(ALL_METHODS))
        def alternate(self, slot, a, b):
            if slot not in self.ex.readers:
                slot = sorted(self.ex.readers)[0]
            for x in (a, b, a, b):
                self.do({"op": "read", "slot": slot, "a": x})

        def teardown(self):
            if self.ex is not None:
                self.ex.close()
            if self.case is not None and self.case["hist"]:
                # every read / emulator step of the history is compared with the truth
                ctx.evaluations += max(1, sum(1 for s_ in self.case["hist"] if s_["op"] in ("read", "emu")))
                if len(ctx.samples) < 6 and len(self.case["hist"]) > 5:
                    ctx.samples.append(self.case)

    return HistoryMachine


def shard_main(ctx):
    ctx.explore_machine("history", make_machine, ctx.n(150, 2000), steps=40)


def replay(case, ctx):
    run_history(case, ctx)

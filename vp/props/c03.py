"""C03 container conformance: every writer emits a self-consistent SGZ file; version field."""
import itertools
import os
import struct
import numpy as np
from hypothesis import strategies as st

from .. import codec, conv, env, files, gen, sgy, sources, spec, stages
from ..core import Violation
from ..spec import FIELDS

META = {
    "level": "exploration",
    "exhaustive_whole": False,
    "rule": ("(a) pipelines: program = convert(route in numpy/segy-regular/segy-irregular/segy-2D/generated ZGY/generated VDS, setting, detection "
             "mode, library version) followed by up to two of {crop(box), re-block, export-to-SEG-Y-and-convert-again}; "
             "after every stage the file is validated against the specification (header truth, 4096-byte blocks, disk "
             "block count = padded voxels x bits / 8, footer arrays at the stride of the stamped version, file length, "
             "table names exactly the stored arrays, SEG-Y header bytes), decoded by the spec-only reader (every sample "
             "and header) and read by the library; (b) version field: enumeration of (major<4, minor<1024, patch<1024, "
             "dev flag) -- all 8 388 608 in the thorough tier, a boundary-complete 300k subset in quick -- checking "
             "tuple->encoding->int->tuple identity and encoding == major*2^21+minor*2^11+patch*2+released, comparison "
             "operators on generated pairs and on all pairs within +-3 encodings of each gate, setuptools_scm-style "
             "version strings, reader behaviour on spec-written files stamped on both sides of each gate, and the cropper and "
             "re-blocker applied to spec-written files stamped at every encoding within +-3 of each gate (output validated as in (a)); "
             "non-trivial pipeline = >=2 footer arrays or 4*n_traces %% 512 != 0 or length >= 2; distinct = "
             "(program shape, n_arrays class, stride class, layout, version)"),
    "assumptions": [
        "the specification is docs/file-specification.md plus the three version conventions named in the property text",
        "the last footer array may or may not carry its 512-byte padding (the statement does not say which)",
        "cropper / re-blocker outputs may carry the source's version stamp or the library's, provided the file follows the stamp's conventions",
        "version strings: X.Y.Z[rcN][.devN][+local] as setuptools_scm emits for a project tagged X.Y.Z; a bare +local suffix may be flagged dev or not; the no-tag fallback 0.1.devN+g... may be refused",
    ],
}

VERSIONS = ["0.2.8", "0.2.8", "0.2.8.dev", "0.2.9.dev3+g1234567", "0.3.0", "0.3.0rc1", "1.0.0", "3.1023.1023",
            "0.2.2", "0.10.0.dev1+g0a1b2c3.d20240101"]
MODE_CODE = {"heuristic": 0, "thorough": 10, "exhaustive": 20, "strip": 30}


def version_encoding(vs):
    """Independent reading of a setuptools_scm version string: release triple + dev flag."""
    main = vs.split("+")[0].replace("rc", ".rc")
    parts = main.split(".")
    return spec.venc(int(parts[0]), int(parts[1]), int(parts[2]), released=len(parts) == 3)


# --------------------------------------------------------------------------------------------------
# (a) pipelines
@st.composite
def pipeline_cases(draw):
    route = draw(st.sampled_from(["numpy", "numpy", "segy", "segy", "irregular", "2d", "zgy", "vds"]))
    case = {"route": route, "version": draw(st.sampled_from(VERSIONS))}
    if route == "2d":
        rate, bs = draw(st.sampled_from([s for s in gen.SETTINGS_2D if s[0] >= 1 and s[1][1] <= 64]))
        src = draw(sources.segy_source(geom="2d", max_dim=12, max_ns=24, allow_mid=False))
        if draw(st.booleans()):
            src["n_tr"] = draw(st.sampled_from([127, 128, 129, 130, 256]))
        case.update(src=src, setting={"rate": rate, "blockshape": list(bs)})
    else:
        if draw(st.sampled_from([True, False, False])):
            rate, bs = 2, (4, 4, 1024)
        else:
            rate, bs = draw(st.sampled_from([s for s in gen.SETTINGS_3D if s[1][0] <= 16 and s[1][1] <= 16]))
        case["setting"] = {"rate": rate, "blockshape": list(bs)}
        dims = draw(st.sampled_from([None, None, (8, 16), (16, 8), (4, 32), (9, 14), (5, 26), (16, 16)]))
        # traces of up to 20 samples, or long enough for several blocks in depth (so that depth crops exist)
        ns = draw(st.one_of(st.integers(2, 20), st.integers(2, 20), st.integers(bs[2] + 1, min(3 * bs[2], 1100)) if bs[2] <= 512 else st.integers(2, 20)))
        if route == "numpy":
            n_il, n_xl = dims or (draw(st.integers(2, 14)), draw(st.integers(2, 14)))
            case.update(shape=[n_il, n_xl, ns], values=draw(gen.values_spec),
                        il=list(draw(gen.line_axis(n_il))), xl=list(draw(gen.line_axis(n_xl))),
                        extra=draw(st.lists(st.sampled_from([1, 5, 21, 73, 181, 185]), max_size=5, unique=True)),
                        dz_ms=draw(st.sampled_from([4, 2, 1, 0.5, 0.333, 0.125])), z0=draw(st.sampled_from([0, 100, -8])))
        elif route in ("zgy", "vds"):
            n_il, n_xl = dims or (draw(st.integers(2, 14)), draw(st.integers(2, 14)))
            ax = lambda: [draw(st.one_of(st.integers(-50, 5000), st.integers(-10 ** 6, 10 ** 6))), draw(st.sampled_from([1, 1, 2, 3, 5]))]
            case.update(shape=[n_il, n_xl, ns], values={"kind": draw(st.sampled_from(["smooth", "gauss", "steps"])), "vseed": draw(st.integers(0, 2 ** 32 - 1))},
                        il=ax(), xl=ax(), dz_ms=draw(st.sampled_from([4, 2, 1, 0.5])),
                        z0=draw(st.sampled_from([0, 100, -8] + ([1000.5, -12.25, 0.75] if route == "zgy" else []))))
        else:
            geom = "regular" if route == "segy" else "irregular"
            case["src"] = draw(sources.segy_source(geom=geom, max_dim=12, max_ns=20, allow_mid=False,
                                                   dims=dims if geom == "regular" else None))
            if geom == "regular" and ns > 20:
                case["src"]["ns"] = ns
    # irregular surveys need the inline-number array to be kept (C08's precondition): no 'strip'
    case["mode"] = draw(st.sampled_from(["heuristic", "thorough", "exhaustive"] + ([] if route == "irregular" else ["strip"])))
    n_ops = draw(st.integers(0, 2))
    ops_ = []
    # operations applicable by construction to what the previous stage produced
    can_reblock = route != "2d" and case["setting"]["rate"] == 2 and case["setting"]["blockshape"] == [4, 4, 1024]
    for _ in range(n_ops):
        choices = []
        if route in ("numpy", "segy", "zgy", "vds"):
            choices.append("crop")
        if can_reblock:
            choices.append("reblock")
        if case["mode"] != "strip":
            choices.append("export")
        if not choices:
            break
        k = draw(st.sampled_from(choices))
        if k == "crop":
            ops_.append({"op": "crop", "f": [draw(st.floats(0, 1)) for _ in range(4)], "f2": [draw(st.floats(0, 1)) for _ in range(2)],
                         "axes": draw(st.sampled_from([[0], [1], [0, 1], [0, 1], [2], [0, 2], [0, 1, 2]]))})
        else:
            ops_.append({"op": k})
            if k == "reblock":
                can_reblock = False
    case["ops"] = ops_
    return case


def headers_from_cols(cols, n):
    return [{f: int(np.broadcast_to(np.asarray(cols.get(f, 0)), (n,))[i]) for f in FIELDS} for i in range(n)]


def first_stage(case, d):
    """Run the converter; return (path, Stage)."""
    rate, bs = case["setting"]["rate"], tuple(case["setting"]["blockshape"])
    out = os.path.join(d, "s0.sgz")
    vstamp = {version_encoding(case["version"])}
    route = case["route"]
    with env.library_version(case["version"]):
        if route == "numpy":
            n_il, n_xl, ns = case["shape"]
            data = gen.make_values((n_il, n_xl, ns), case["values"]["kind"], case["values"]["vseed"])
            il, xl = gen.axis_values(*case["il"], n_il), gen.axis_values(*case["xl"], n_xl)
            samples = case["z0"] + case["dz_ms"] * np.arange(ns)
            cols = dict(sgy.regular_cols(il, xl))
            hd = {}
            for f in case["extra"]:
                rng = np.random.Generator(np.random.PCG64(f))
                cols[f] = rng.integers(-2 ** 31, 2 ** 31 - 1, n_il * n_xl)
                # (the integer type and byte order the caller's arrays come in: np.frombuffer on SEG-Y header bytes
                # gives big-endian ones)
                hd[f] = cols[f].reshape(n_il, n_xl).astype(["int32", ">i4", "int64", "<i4", ">i8"][(f + case["values"]["vseed"]) % 5])
            conv.numpy_convert(data, out, rate, bs, ilines=np.array(il), xlines=np.array(xl), samples=samples, trace_headers=hd)
            st_ = stages.Stage(vol=codec.image(data, rate), il=np.array(il), xl=np.array(xl), samples=samples,
                               headers=headers_from_cols(cols, n_il * n_xl), pos=list(range(n_il * n_xl)),
                               tracecount=n_il * n_xl, rate=rate, bs=bs, versions=vstamp, source_code=20,
                               detection_code=0, stored_fields=sorted(set(case["extra"]) | {189, 193}))
            return out, st_, None
        if route in ("zgy", "vds"):
            n_il, n_xl, ns = case["shape"]
            data = gen.make_values((n_il, n_xl, ns), case["values"]["kind"], case["values"]["vseed"])
            path = os.path.join(d, "in." + route)
            if route == "zgy":
                z = sources.write_zgy(path, data, case["il"], case["xl"], case["z0"], case["dz_ms"])
                conv.segy_convert(path, out, rate, bs, cls="ZgyConverter")
                det = 0
            else:
                sources.track_vds()
                try:
                    z = sources.write_vds(path, data, case["il"], case["xl"], case["z0"], case["dz_ms"])
                    conv.segy_convert(path, out, rate, bs, cls="VdsConverter", header_detection=case["mode"])
                finally:
                    sources.close_leaked_vds()
                det = MODE_CODE[case["mode"]]
            # headers of these routes are not pinned by the statement beyond the line numbers: not asserted
            st_ = stages.Stage(vol=codec.image(z["cube"], rate), il=np.array(z["ilines"]), xl=np.array(z["xlines"]),
                               samples=z["samples"], headers=None, pos=list(range(n_il * n_xl)), tracecount=n_il * n_xl,
                               rate=rate, bs=bs, versions=vstamp, source_code=10 if route == "zgy" else 30, detection_code=det)
            return out, st_, None
        S = sources.build(case["src"], d)
        sources.annotate(case, S)
        mode = case["mode"]
        conv.segy_convert(S.path, out, rate, bs, header_detection=mode)
    headers = S.headers
    if mode == "strip":
        headers = [{f: 0 for f in FIELDS} for _ in range(S.n)]
    elif mode == "heuristic" and not S.heuristic_ok:
        headers = None
    common = dict(samples=S.samples, headers=headers, tracecount=S.n, rate=rate, bs=bs, versions=vstamp,
                  source_code=0, detection_code=MODE_CODE[mode], segy_header=S.file_header)
    if route == "2d":
        st_ = stages.Stage(vol=codec.image(S.traces, rate), pos=list(range(S.n)), **common)
    elif route == "segy":
        st_ = stages.Stage(vol=codec.image(S.cube, rate), il=S.ilines, xl=S.xlines, pos=list(range(S.n)), **common)
    else:
        n_il, n_xl, ns = case["src"]["n_il"], case["src"]["n_xl"], case["src"]["ns"]
        grid = np.zeros((n_il * n_xl, ns), dtype=np.float32)
        grid[S.pos] = S.traces
        st_ = stages.Stage(vol=codec.image(grid.reshape(n_il, n_xl, ns), rate, "zero"), il=np.array(S.grid_il),
                           xl=np.array(S.grid_xl), pos=list(S.pos), **common)
    if mode == "exhaustive":
        st_.stored_fields = list(FIELDS)
    if mode == "strip":
        st_.stored_fields = []
    return out, st_, S


def run_pipeline(case, ctx):
    from seismic_zfp.cropping import SgzCropper
    from seismic_zfp.conversion import SgzConverter
    d = ctx.tmp()
    path, stg, S = first_stage(case, d)
    stages.check_file(path, stg, "converted:" + case["route"])
    shape = [case["route"]]
    cur_version = {version_encoding("0.2.8")}
    for k, op in enumerate(case["ops"]):
        nxt = os.path.join(d, f"s{k + 1}.sgz")
        structured = (not stg.is_2d) and stg.tracecount == len(stg.il) * len(stg.xl)
        if op["op"] == "crop":
            if not structured:
                shape.append("crop-skipped")
                continue
            n = (len(stg.il), len(stg.xl), len(stg.samples))
            box = [None, None, None]
            for a in op["axes"]:
                f = op["f"][2 * a:2 * a + 2] if a < 2 else op.get("f2", [0.0, 1.0])
                lo = int(f[0] * (n[a] - 1))
                hi = lo + 1 + int(f[1] * (n[a] - lo - 1))
                box[a] = (lo, hi)
            c = SgzCropper(path)
            try:
                c.write_cropped_file_by_indexes(nxt, box[0], box[1], box[2])
            finally:
                c.close()
            new, _ = stages.crop_stage(stg, box)
            new.versions = stg.versions | cur_version
            if stg.segy_header is not None:
                sh = bytearray(stg.segy_header)
                if len(new.samples) <= 0xFFFF:     # (a 16-bit field: longer traces cannot be stated in it)
                    sh[3220:3222] = struct.pack(">H", len(new.samples))
                new.segy_header = bytes(sh)
            stg, path = new, nxt
            shape.append("crop")
        elif op["op"] == "reblock":
            if stg.is_2d or stg.rate != 2 or stg.bs != (4, 4, 1024):
                shape.append("reblock-skipped")
                continue
            c = SgzConverter(path)
            try:
                c.convert_to_adv_sgz(nxt)
            finally:
                c.close()
            new = stages.reblock_stage(stg)
            new.versions = stg.versions | cur_version
            stg, path = new, nxt
            shape.append("reblock")
        else:
            if stg.headers is None or case["mode"] == "strip" or (not stg.is_2d and min(len(stg.il), len(stg.xl)) < 2):
                # (a cube cropped to a single line is a 2D line for the converter: outside "n_il, n_xl >= 2")
                shape.append("export-skipped")
                continue
            sgyp = os.path.join(d, f"e{k + 1}.sgy")
            c = SgzConverter(path)
            try:
                c.convert_to_segy(sgyp)
            finally:
                c.close()
            irregular = not (structured or stg.is_2d)
            src = sgy.read_source(sgyp, ignore_geometry=stg.is_2d or irregular)
            # the exported sample axis is the stage's, whenever SEG-Y can state it (whole-millisecond start within
            # 16 bits, whole-microsecond interval within 15 bits)
            z = np.asarray(stg.samples, dtype=np.float64)
            if len(z) > 1:
                dt = 1000.0 * (z[1] - z[0])
                if abs(z[0] - round(z[0])) < 1e-9 and abs(z[0]) <= 32767 and abs(dt - round(dt)) < 1e-6 and 1 <= round(dt) <= 32767:
                    e = np.asarray(src["samples"], dtype=np.float64)
                    if len(e) != len(z) or (np.abs(e - z) > 1e-6 + 1e-9 * np.abs(z)).any():
                        raise Violation(f"exported-sample-axis:stage{k + 1}", f"stage axis {z[:3]}.., exported SEG-Y {e[:3]}..")
            conv.segy_convert(sgyp, nxt, stg.rate, stg.bs, header_detection="exhaustive")
            common = dict(samples=src["samples"], headers=src["headers"], tracecount=src["tracecount"], rate=stg.rate,
                          bs=stg.bs, versions=cur_version, source_code=0, detection_code=20,
                          segy_header=src["file_header"], stored_fields=list(FIELDS))
            if stg.is_2d:
                new = stages.Stage(vol=codec.image(src["traces"], stg.rate), pos=list(range(src["tracecount"])), **common)
            elif irregular:
                grid = np.zeros((len(stg.il) * len(stg.xl), src["traces"].shape[1]), dtype=np.float32)
                grid[stg.pos] = src["traces"]
                new = stages.Stage(vol=codec.image(grid.reshape(len(stg.il), len(stg.xl), -1), stg.rate, "zero"),
                                   il=stg.il, xl=stg.xl, pos=list(stg.pos), **common)
            else:
                cube = src["traces"].reshape(len(src["ilines"]), len(src["xlines"]), -1)
                new = stages.Stage(vol=codec.image(cube, stg.rate), il=src["ilines"], xl=src["xlines"],
                                   pos=list(range(src["tracecount"])), **common)
            stg, path = new, nxt
            shape.append("export+convert")
        stages.check_file(path, stg, f"stage{k + 1}:{op['op']}")
    raw = conv.read_bytes(path)
    s = spec.SgzSpec(raw)
    n_arr = s.n_arrays
    stride_odd = s.array_len % 512 != 0
    nontriv = n_arr >= 2 or stride_odd or len(shape) >= 2
    return {"sig": [shape, min(n_arr, 8), stride_odd, list(stg.bs), stg.rate, case["version"]] if nontriv else None,
            "labels": ["pipeline:" + ">".join(shape), f"arrays={min(n_arr, 8)}", "stride-odd" if stride_odd else "stride512"]}


# --------------------------------------------------------------------------------------------------
# (b) version field
def check_version_tuple(major, minor, patch, dev):
    from seismic_zfp.version import SeismicZfpVersion as V
    t = (major, minor, patch, ".dev") if dev else (major, minor, patch)
    v = V(t)
    want = spec.venc(major, minor, patch, released=not dev)
    if v.encoding != want:
        return f"{t}: encoding {v.encoding}, expected {want}"
    w = V(v.encoding)
    if w.to_tuple() != t or (w.major, w.minor, w.patch, w.changes_exist) != (major, minor, patch, dev):
        return f"{t}: decodes to {w.to_tuple()}"
    if w.encoding != want:
        return f"{t}: re-encodes to {w.encoding}"
    return None


def boundary_values(limit):
    return sorted({0, 1, 2, 3, limit - 1, limit - 2, limit // 2, limit // 2 - 1, limit // 2 + 1, 6, 7, 8, 9, 10, 255, 256, 511, 512})


def enumerate_versions(ctx):
    """Exhaustive in the thorough tier; boundary-complete subset + a pseudo-random sample in quick."""
    n = 0
    if ctx.tier == "thorough":
        for major in range(4):
            for minor in range(ctx.shard, 1024, ctx.nshards):
                for patch in range(1024):
                    for dev in (False, True):
                        p = check_version_tuple(major, minor, patch, dev)
                        n += 1
                        if p:
                            ctx.fail({"check": "version_enum", "tuple": [major, minor, patch, dev]}, Violation("version-encoding", p))
                            return n
        ctx.exhaustive = True
    else:
        bv = [v for v in boundary_values(1024) if v < 1024]
        todo = [(a, b, c, d) for a in range(4) for b in bv for c in bv for d in (False, True)]
        rng = np.random.Generator(np.random.PCG64(ctx.hseed("venum")))
        extra = rng.integers(0, [4, 1024, 1024, 2], size=(12000, 4))
        todo = todo[ctx.shard::ctx.nshards] + [tuple(int(x) for x in r[:3]) + (bool(r[3]),) for r in extra]
        for (major, minor, patch, dev) in todo:
            p = check_version_tuple(major, minor, patch, dev)
            n += 1
            if p:
                ctx.fail({"check": "version_enum", "tuple": [major, minor, patch, dev]}, Violation("version-encoding", p))
                return n
    ctx.evaluations += n
    ctx.sigs.add(f"version-enum-shard{ctx.shard}")
    ctx.extra["versions_enumerated"] = n
    return n


def run_version_tuple(case, ctx):
    p = check_version_tuple(*case["tuple"])
    if p:
        raise Violation("version-encoding", p)
    return {}


def model_key(t):
    major, minor, patch, dev = t
    return (major, minor, patch, 0 if dev else 1)


@st.composite
def version_pair_cases(draw):
    def vt():
        return [draw(st.integers(0, 3)), draw(st.sampled_from([0, 1, 2, 3, 9, 10, 1023]) | st.integers(0, 1023)),
                draw(st.sampled_from([0, 1, 6, 7, 1022, 1023]) | st.integers(0, 1023)), draw(st.booleans())]
    a = vt()
    b = draw(st.one_of(st.just(list(a)), st.builds(lambda: vt())))
    if draw(st.booleans()):
        # neighbour of a in encoding order
        e = spec.venc(a[0], a[1], a[2], not a[3]) + draw(st.integers(-3, 3))
        e = min(max(e, 0), spec.venc(3, 1023, 1023))
        m, mi, p, rel = spec.vdec(e)
        b = [m, mi, p, not rel]
    return {"a": a, "b": b}


def run_version_pair(case, ctx):
    from seismic_zfp.version import SeismicZfpVersion as V
    ta, tb = case["a"], case["b"]
    mk = lambda t: V((t[0], t[1], t[2], ".dev") if t[3] else (t[0], t[1], t[2]))
    a, b = mk(ta), mk(tb)
    ka, kb = model_key(ta), model_key(tb)
    if (a > b) != (ka > kb) or (b > a) != (kb > ka) or (a == b) != (ka == kb) or (a < b) != (ka < kb):
        raise Violation("version-order", f"{ta} vs {tb}: >:{a > b} <:{a < b} ==:{a == b}, model order {ka} vs {kb}")
    # the same through the integer constructor (what a reader does with bytes 72-75)
    ia, ib = V(a.encoding), V(b.encoding)
    if (ia > ib) != (ka > kb) or (ia == ib) != (ka == kb):
        raise Violation("version-order", f"{ta} vs {tb} via encodings")
    return {"sig": ["pair", ka > kb, ka == kb, ta[3], tb[3]], "labels": ["version-pair"]}


def gate_pairs(ctx):
    """All pairs within +-3 encodings of each gate, against each gate constant."""
    from seismic_zfp.version import SeismicZfpVersion as V
    n = 0
    for gate_s, gate_e in (("0.1.6", spec.V_0_1_6), ("0.2.1", spec.V_0_2_1)):
        g = V(gate_s)
        if g.encoding != gate_e:
            ctx.fail({"check": "gate", "gate": gate_s}, Violation("version-gate", f"V('{gate_s}').encoding {g.encoding} != {gate_e}"))
            return
        for ea in range(gate_e - 3, gate_e + 4):
            for eb in range(gate_e - 3, gate_e + 4):
                a, b = V(ea), V(eb)
                n += 1
                if (a > b) != (ea > eb) or (a == b) != (ea == eb) or (a > g) != (ea > gate_e):
                    ctx.fail({"check": "gate", "ea": ea, "eb": eb}, Violation("version-gate", f"encodings {ea},{eb}: order wrong"))
                    return
    ctx.evaluations += n
    ctx.sigs.add("gate-pairs")


# setuptools_scm-style strings
@st.composite
def version_string_cases(draw):
    major, minor, patch = draw(st.integers(0, 3)), draw(st.integers(0, 1023)), draw(st.integers(0, 1023))
    form = draw(st.sampled_from(["release", "dirty", "dev", "dev-dirty", "rc", "rc-dev", "post"]))
    base = f"{major}.{minor}.{patch}"
    h = "g" + "".join(draw(st.lists(st.sampled_from("0123456789abcdef"), min_size=7, max_size=9)))
    date = "d2024%02d%02d" % (draw(st.integers(1, 12)), draw(st.integers(1, 28)))
    n = draw(st.integers(0, 300))
    s = {"release": base, "dirty": f"{base}+{date}", "dev": f"{base}.dev{n}+{h}", "dev-dirty": f"{base}.dev{n}+{h}.{date}",
         "rc": f"{base}rc{n % 9 + 1}", "rc-dev": f"{base}rc{n % 9 + 1}.dev{n}+{h}", "post": f"{base}.post{n % 9 + 1}"}[form]
    return {"string": s, "form": form, "triple": [major, minor, patch]}


def run_version_string(case, ctx):
    from seismic_zfp.version import SeismicZfpVersion as V
    s, form = case["string"], case["form"]
    try:
        v = V(s)
    except Exception as e:
        raise Violation("version-string-refused", f"'{s}' ({form}): {type(e).__name__}: {e}")
    if [v.major, v.minor, v.patch] != case["triple"]:
        raise Violation("version-string-triple", f"'{s}' parsed as {v.to_tuple()}")
    if form == "release" and v.changes_exist:
        raise Violation("version-string-flag", f"release '{s}' flagged as development")
    if form in ("dev", "dev-dirty", "rc", "rc-dev") and not v.changes_exist:
        raise Violation("version-string-flag", f"'{s}' not flagged as development")
    if v.encoding != spec.venc(v.major, v.minor, v.patch, released=not v.changes_exist):
        raise Violation("version-string-encoding", f"'{s}'")
    return {"sig": ["vstring", form, case["triple"][0], case["triple"][1] % 4, case["triple"][2] % 4], "labels": ["vstring:" + form]}


# gates: files written by the spec writer with the conventions of either side of each gate
@st.composite
def gate_file_cases(draw):
    gate = draw(st.sampled_from([spec.V_0_1_6, spec.V_0_2_1]))
    enc = gate + draw(st.integers(-3, 3))
    n_il, n_xl, ns = draw(st.integers(2, 9)), draw(st.integers(2, 9)), draw(st.integers(2, 9))
    if draw(st.booleans()):
        n_il, n_xl = draw(st.sampled_from([(8, 16), (4, 32), (9, 14), (16, 16)]))
    return {"enc": enc, "shape": [n_il, n_xl, ns], "values": draw(gen.values_spec),
            "arrays": sorted([189, 193] + draw(st.lists(st.sampled_from([1, 5, 73, 181]), max_size=3, unique=True))),
            "dz_us": draw(st.sampled_from([4000, 2000, 1000])), "z0": draw(st.sampled_from([0, 100, -4])),
            "il": list(draw(gen.line_axis(n_il))), "xl": list(draw(gen.line_axis(n_xl)))}


def run_gate_file(case, ctx):
    from seismic_zfp.read import SgzReader
    d = ctx.tmp()
    m, mi, p, rel = spec.vdec(case["enc"])
    vs = f"{m}.{mi}.{p}" + ("" if rel else ".dev")
    desc = {"kind": "spec", "family": "4x4", "rate": 4, "blockshape": [4, 4, 512], "shape": case["shape"],
            "version": vs, "values": case["values"], "il": case["il"], "xl": case["xl"], "z0": case["z0"],
            "dz_us": case["dz_us"], "arrays": case["arrays"], "zero_bs": False}
    path, T = files.build(desc, d)
    with SgzReader(path) as r:
        if r.tracecount != T.n_tr:
            raise Violation("gate-tracecount", f"version {vs}: {r.tracecount} != {T.n_tr}")
        if len(r.zslices) != len(T.samples) or not np.allclose(r.zslices, T.samples, rtol=1e-12, atol=1e-9):
            raise Violation("gate-sample-axis", f"version {vs}: reader {r.zslices[:3]} vs file convention {T.samples[:3]}")
        for i in sorted({0, T.n_tr - 1, T.n_tr // 2}):
            h = r.gen_trace_header(i)
            w = T.header(i)
            for f in FIELDS:
                if int(h[f]) != w[f]:
                    raise Violation("gate-header", f"version {vs}: trace {i} field {f}: {int(h[f])} != {w[f]}")
    return {"sig": ["gate", case["enc"], len(case["arrays"]), (4 * T.n_tr) % 512 == 0], "labels": ["gate-file"]}


# gates x writers: the cropper and the re-blocker applied to files of every version within +-3 encodings of each gate
@st.composite
def gate_op_cases(draw):
    gate = draw(st.sampled_from([spec.V_0_1_6, spec.V_0_2_1, spec.V_0_2_1]))
    enc = gate + draw(st.integers(-3, 3))
    m, mi, p, rel = spec.vdec(enc)
    vs = f"{m}.{mi}.{p}" + ("" if rel else ".dev")
    op = draw(st.sampled_from(["crop", "crop", "reblock"]))
    n_il, n_xl = draw(st.sampled_from([(8, 16), (4, 32), (9, 14), (16, 16), (5, 7), (12, 12), (3, 40)]))
    ns = draw(st.integers(2, 12))
    desc = {"kind": "spec", "family": "4x4", "rate": 2 if op == "reblock" else draw(st.sampled_from([2, 4, 8])),
            "shape": [n_il, n_xl, ns], "version": vs, "values": draw(gen.values_spec),
            "il": list(draw(gen.line_axis(n_il))), "xl": list(draw(gen.line_axis(n_xl))),
            "z0": draw(st.sampled_from([0, 100, -4])), "dz_us": draw(st.sampled_from([4000, 2000, 1000])),
            "arrays": sorted([189, 193] + draw(st.lists(st.sampled_from([1, 5, 73, 181]), max_size=3, unique=True))),
            "dups": [list(q) for q in draw(st.lists(st.sampled_from([(197, 189), (185, 181), (9, 5)]), max_size=1))],
            "pad_last": draw(st.booleans()), "zero_bs": False}
    desc["blockshape"] = [4, 4, 32768 // (16 * desc["rate"])]
    case = {"file": desc, "enc": enc, "op": op}
    if op == "crop":
        case["f"] = [draw(st.floats(0, 1)) for _ in range(4)]
        case["axes"] = draw(st.sampled_from([[0], [1], [0, 1], [0, 1]]))
    return case


def run_gate_op(case, ctx):
    from seismic_zfp.cropping import SgzCropper
    from seismic_zfp.conversion import SgzConverter
    from .c10 import source_stage
    d = ctx.tmp()
    path, T = files.build(case["file"], d, "src.sgz")
    src = source_stage(T)
    out = os.path.join(d, "out.sgz")
    if case["op"] == "crop":
        n = (T.n_il, T.n_xl)
        box = [None, None, None]
        for a in case["axes"]:
            lo = int(case["f"][2 * a] * (n[a] - 1))
            hi = lo + 1 + int(case["f"][2 * a + 1] * (n[a] - lo - 1))
            box[a] = (lo, hi)
        c = SgzCropper(path)
        try:
            c.write_cropped_file_by_indexes(out, box[0], box[1], box[2])
        finally:
            c.close()
        want, _ = stages.crop_stage(src, box)
        sh = bytearray(T.raw[4096:4096 + 3600])
        if len(want.samples) <= 0xFFFF:     # (a 16-bit field: longer traces cannot be stated in it)
            sh[3220:3222] = struct.pack(">H", len(want.samples))
        want.segy_header = bytes(sh)
    else:
        c = SgzConverter(path)
        try:
            c.convert_to_adv_sgz(out)
        finally:
            c.close()
        want = stages.reblock_stage(src)
        want.segy_header = T.raw[4096:4096 + 3600]
    s = stages.check_file(out, want, f"gate-{case['op']}")
    return {"sig": ["gate-op", case["op"], case["enc"], min(s.n_arrays, 4), s.array_len % 512 != 0],
            "labels": ["gate-op:" + case["op"], "gate-op-stride-odd" if s.array_len % 512 else "gate-op-stride512"]}


def run_gate_pair(case, ctx):
    """Replay of one failing item of gate_pairs."""
    from seismic_zfp.version import SeismicZfpVersion as V
    if "gate" in case:
        gate_e = {"0.1.6": spec.V_0_1_6, "0.2.1": spec.V_0_2_1}[case["gate"]]
        if V(case["gate"]).encoding != gate_e:
            raise Violation("version-gate", f"V('{case['gate']}').encoding {V(case['gate']).encoding} != {gate_e}")
        return {"sig": None, "labels": ["gate-pair"]}
    ea, eb = case["ea"], case["eb"]
    a, b = V(ea), V(eb)
    if (a > b) != (ea > eb) or (a == b) != (ea == eb):
        raise Violation("version-gate", f"encodings {ea},{eb}: order wrong")
    for gate_s, gate_e in (("0.1.6", spec.V_0_1_6), ("0.2.1", spec.V_0_2_1)):
        if (a > V(gate_s)) != (ea > gate_e):
            raise Violation("version-gate", f"encodings {ea},{eb}: order wrong")
    return {"sig": None, "labels": ["gate-pair"]}


def run_case(case, ctx):
    return {"pipeline": run_pipeline, "gate": run_gate_pair, "version_pairs": run_version_pair, "version_strings": run_version_string,
            "gates": run_gate_file, "gate_ops": run_gate_op, "version_enum": run_version_tuple}[case["check"]](case, ctx)


def shard_main(ctx):
    enumerate_versions(ctx)
    if ctx.shard == 0:
        gate_pairs(ctx)
    if ctx.failures:
        return
    if not ctx.explore("version_pairs", version_pair_cases(), run_case, ctx.n(400, 60000)):
        return
    if not ctx.explore("version_strings", version_string_cases(), run_case, ctx.n(300, 20000)):
        return
    if not ctx.explore("gates", gate_file_cases(), run_case, ctx.n(40, 1500)):
        return
    if not ctx.explore("gate_ops", gate_op_cases(), run_case, ctx.n(40, 1500)):
        return
    ctx.explore("pipeline", pipeline_cases(), run_case, ctx.n(100, 1200))


def replay(case, ctx):
    run_case(case, ctx)

"""C19 configuration soundness: a setting is either rejected or yields a faithful file."""
import itertools
import os
import numpy as np

from .. import codec, conv, gen, sgy, spec, stages
from ..core import Violation, library_exception

META = {
    "level": "exploration",
    "exhaustive_whole": True,
    "rule": ("complete enumeration (both tiers) of the grid bits_per_voxel in {-16..-2, -1, 0, 1/8, 1/4, 1/2, 1, 2, 3, 4, 5, "
             "6, 8, 12, 16, 32, 64, '4', '0.5', '-2', '-1', '0.25'} x blockshape in {-1, 1, 2, 3, 4, 5, 6, 8, 12, 16, 32, ..., "
             "8192}^3 with product <= 2^17, for 3D and for 2D (first component 1): every tuple goes through "
             "define_blockshape_3d/2d; every accepted tuple is converted on a tiny cube (NumPy route; every 5th also "
             "through SEG-Y; 2D through SEG-Y; integer tuples of the valid set and every 23rd grid tuple also through the sgy2sgz command line) and must yield a conformant file whose read_volume equals the codec "
             "image; a sample of rejected tuples is run through the converter to confirm no output is left; every "
             "member of the valid set (344 3D + 88 2D settings, each in its spellings) must be accepted; non-trivial = "
             "tuple accepted by define_blockshape; distinct = the tuple"),
    "assumptions": [
        "outcome classes: refused (exception and no output file) / faithful (validator passes, read-back == libzfp image); anything else is a violation",
        "2D settings below 1 bit are a known finding (K03): refused, although the property lists them as valid",
    ],
}

BPV = list(range(-16, -1)) + [-1, 0, 0.125, 0.25, 0.5, 1, 2, 3, 4, 5, 6, 8, 12, 16, 32, 64, "4", "0.5", "-2", "-1", "0.25", 4.0, 0.3]
DIMS = [-1, 1, 2, 3, 4, 5, 6, 8, 12, 16, 32, 64, 128, 256, 512, 1024, 2048, 4096, 8192]


def grid(two_d):
    for bpv in BPV:
        for bs in itertools.product([1] if two_d else DIMS, DIMS, DIMS):
            if np.prod([abs(b) for b in bs]) <= 2 ** 17:
                yield bpv, bs


def in_valid_set(rate, bs, two_d):
    if rate not in gen.RATES:
        return False
    dims = bs[1:] if two_d else bs
    if two_d and bs[0] != 1:
        return False
    return all(isinstance(b, (int, np.integer)) and b >= 4 and (b & (b - 1)) == 0 for b in dims) and \
        np.prod([float(b) for b in bs]) * rate == 32768


_src_cache = {}


def tiny_2d_segy(d):
    if "2d" not in _src_cache:
        data = gen.make_values((9, 11), "gauss", 5)
        path = os.path.join(d, "tiny2d.sgy")
        sgy.write_segy(path, data, sgy.base_cols(9, 11, 4000, 0), 4000, fmt=5)
        _src_cache["2d"] = (path, sgy.read_source(path, ignore_geometry=True)["traces"])
    return _src_cache["2d"]


def tiny_3d_segy(d):
    if "3d" not in _src_cache:
        data = gen.make_values((5, 6, 9), "gauss", 6)
        path = os.path.join(d, "tiny3d.sgy")
        cols = sgy.base_cols(30, 9, 4000, 0)
        cols.update(sgy.regular_cols(range(1, 6), range(1, 7)))
        sgy.write_segy(path, data.reshape(30, 9), cols, 4000, fmt=5, grid=(list(range(1, 6)), list(range(1, 7))))
        _src_cache["3d"] = (path, data)
    return _src_cache["3d"]


def try_setting(case, ctx, d):
    """Returns 'refused' | 'faithful'; raises Violation otherwise."""
    from seismic_zfp.utils import define_blockshape_2d, define_blockshape_3d
    bpv, bs, two_d, route = case["bpv"], tuple(case["bs"]), case["two_d"], case["route"]
    out = os.path.join(d, "o.sgz")
    if os.path.exists(out):
        os.remove(out)
    # the container and integer type the block dimensions arrive in (a tuple of ints, a list, an int64 array as
    # 2 ** np.array([...]) gives, NumPy scalars)
    bs_given = {"list": list, "np64": lambda b: np.array(b, dtype=np.int64), "intp": lambda b: tuple(np.intp(x) for x in b)}.get(case.get("bs_form"), tuple)(bs)
    resolved = None
    try:
        resolved = (define_blockshape_2d if two_d else define_blockshape_3d)(bpv, bs)
    except Exception:
        pass
    if resolved is None and not case.get("convert_anyway"):
        return "refused", None
    sentinel = None
    if resolved is None and (len(repr(bpv)) + sum(abs(int(b)) for b in bs)) % 2:
        # a refused setting with something already stored under the output name: it must stay as it was
        sentinel = b"previous content of the output path " * 3
        with open(out, "wb") as fh:
            fh.write(sentinel)
    try:
        if route == "cli":
            # the command-line entry point takes the same integers (negative rate = reciprocal, -1 = derive)
            path, src = tiny_2d_segy(ctx.work) if two_d else tiny_3d_segy(ctx.work)
            code, exc = conv.cli_invoke(["sgy2sgz", path, out, "--bits-per-voxel", int(bpv), "--blockshape", *[int(b) for b in bs]])
            if code != 0:
                raise exc if isinstance(exc, Exception) else RuntimeError(f"exit {code}")
        elif two_d:
            path, src = tiny_2d_segy(ctx.work)
            conv.segy_convert(path, out, bpv, bs_given, header_detection="strip")
        elif route == "segy":
            path, src = tiny_3d_segy(ctx.work)
            conv.segy_convert(path, out, bpv, bs_given, header_detection="strip")
        else:
            # (a fifth of the settings with thin blocks get traces of more than 256 blocks: 256 * blockshape[2] + 5 samples)
            ns = 256 * int(resolved[1][2]) + 5 if (case.get("tall") and resolved is not None and 0 < int(resolved[1][2]) <= 16) else 9
            src = gen.make_values((5, 6, ns), "gauss", 6)
            conv.numpy_convert(src, out, bpv, bs_given)
    except Exception as e:
        if sentinel is not None:
            if not os.path.exists(out) or open(out, "rb").read() != sentinel:
                raise Violation("refusal-touched-existing-output", f"bpv={bpv!r} blockshape={bs}: {type(e).__name__}: {e}; the file already at the output path was changed")
            os.remove(out)
        elif os.path.exists(out):
            # "raises before producing an output": not even an empty file (it would replace whatever was there)
            raise Violation("refusal-left-output", f"bpv={bpv!r} blockshape={bs}: {type(e).__name__}: {e}; output file of {os.path.getsize(out)} bytes exists")
        if resolved is not None and library_exception(e) is None and route != "cli":
            raise
        return "refused", resolved
    if resolved is None:
        raise Violation("converter-accepts-what-define_blockshape-refuses", f"bpv={bpv!r} blockshape={bs}")
    rate, rbs = resolved
    raw = conv.read_bytes(out)
    probs = spec.validate(raw, {"rate": float(rate), "blockshape": tuple(int(b) for b in rbs)})
    if probs:
        raise Violation("accepted-setting-nonconformant-file", f"bpv={bpv!r} blockshape={bs} -> {rate}, {rbs}: {probs[0]}")
    from seismic_zfp.read import SgzReader
    want = codec.image(src, float(rate))
    try:
        with SgzReader(out) as r:
            got = np.stack([np.array(r.get_trace(i)) for i in range(r.tracecount)]) if two_d else r.read_volume()
    except Exception as e:
        raise Violation("accepted-setting-unreadable-file", f"bpv={bpv!r} blockshape={bs} -> {rate}, {rbs}: {type(e).__name__}: {e}")
    if not codec.bits_equal(got, want):
        raise Violation("accepted-setting-wrong-data", f"bpv={bpv!r} blockshape={bs} -> {rate}, {rbs}: {codec.first_diff(got, want)}")
    if not two_d:
        # the other ways of reading the accepted file: a z-slice near the top and one at the end, the last inline, a crossline
        try:
            with SgzReader(out) as r:
                parts = [("read_zslice(1)", r.read_zslice(1), want[:, :, 1]), (f"read_zslice({want.shape[2] - 1})", r.read_zslice(want.shape[2] - 1), want[:, :, -1]),
                         (f"read_inline({want.shape[0] - 1})", r.read_inline(want.shape[0] - 1), want[-1]), ("read_crossline(1)", r.read_crossline(1), want[:, 1])]
        except Exception as e:
            raise Violation("accepted-setting-unreadable-file", f"bpv={bpv!r} blockshape={bs} -> {rate}, {rbs}: {type(e).__name__}: {e}")
        for what, g, w in parts:
            if g.shape != w.shape or not codec.bits_equal(np.asarray(g, dtype=np.float32), np.ascontiguousarray(w)):
                raise Violation("accepted-setting-wrong-data", f"bpv={bpv!r} blockshape={bs} -> {rate}, {rbs}: {what} differs from the codec image")
    v = spec.SgzSpec(raw).volume()
    if not codec.bits_equal(v, want):
        raise Violation("accepted-setting-wrong-data", f"spec decode: bpv={bpv!r} blockshape={bs}")
    return "faithful", resolved


def run_case(case, ctx):
    d = ctx.tmp()
    outcome, resolved = try_setting(case, ctx, d)
    if case.get("must_accept") and outcome != "faithful":
        raise Violation("valid-setting-refused", f"bpv={case['bpv']!r} blockshape={case['bs']} (2D={case['two_d']}): "
                        + _why(case))
    if outcome == "faithful" and resolved is not None:
        rate, rbs = resolved
        if not in_valid_set(float(rate), tuple(int(b) for b in rbs), case["two_d"]):
            # accepted and faithful although outside the set the property names: allowed by the statement
            ctx.labels["faithful-outside-valid-set"] += 1
    return {"sig": [repr(case["bpv"]), case["bs"], case["two_d"], case["route"]] if resolved is not None else None,
            "labels": [outcome, "2d" if case["two_d"] else "3d"]}


def _why(case):
    from seismic_zfp.utils import define_blockshape_2d, define_blockshape_3d
    try:
        (define_blockshape_2d if case["two_d"] else define_blockshape_3d)(case["bpv"], tuple(case["bs"]))
    except Exception as e:
        return f"{type(e).__name__}: {e}"
    return "conversion failed"


def spellings(rate, bs):
    out = []
    rs = [rate if rate < 1 else int(rate), float(rate), str(rate if rate < 1 else int(rate))]
    if rate < 1:
        rs.append(-int(round(1 / rate)))
    for r in rs:
        out.append((r, tuple(bs)))
        for k in range(3):
            if bs[k] != 1:
                b = list(bs)
                b[k] = -1
                out.append((r, tuple(b)))
    out.append((-1, tuple(bs)))
    return out


def many_settings_one_converter(ctx, which):
    import seismic_zfp.conversion as C
    from seismic_zfp.read import SgzReader
    d = ctx.tmp()
    two_d = which == 3
    path, src = tiny_2d_segy(ctx.work) if two_d else tiny_3d_segy(ctx.work)
    settings = [s_ for s_ in (gen.SETTINGS_2D if two_d else gen.SETTINGS_3D) if s_[0] >= 1][which::3 if not two_d else 1][:40]
    n = 0
    with conv.env.quiet():
        with C.SegyConverter(path) as c:
            for k, (rate, bs) in enumerate(settings):
                out = os.path.join(d, "m.sgz")
                if os.path.exists(out):
                    os.remove(out)
                try:
                    c.run(out, bits_per_voxel=rate, blockshape=tuple(bs), header_detection="strip")
                except Exception as e:
                    raise Violation("valid-setting-refused:converter-reused",
                                    f"setting #{k + 1} on one converter object, rate {rate} blockshape {bs}: {type(e).__name__}: {e}")
                with SgzReader(out) as r:
                    got = np.stack([np.array(r.get_trace(i)) for i in range(r.tracecount)]) if two_d else r.read_volume()
                if not codec.bits_equal(got, codec.image(src, float(rate))):
                    raise Violation("accepted-setting-wrong-data:converter-reused", f"setting #{k + 1}, rate {rate} blockshape {bs}")
                n += 1
    conv.retire_leftover_workers()
    ctx.evaluations += n
    return n


def replay_multi(case, ctx):
    many_settings_one_converter(ctx, case["which"])


def shard_main(ctx):
    n = 0
    items = []
    for two_d in (False, True):
        for k, (bpv, bs) in enumerate(grid(two_d)):
            items.append({"check": "grid", "bpv": bpv, "bs": list(bs), "two_d": two_d,
                          "route": "segy" if (k % 5 == 0 and not two_d) else "numpy", "convert_anyway": k % 97 == 0})
    forms = ["tuple", "list", "tuple", "np64", "tuple", "intp"]
    for rate, bs in gen.SETTINGS_3D:
        for r, b in spellings(rate, bs):
            items.append({"check": "valid", "bpv": r, "bs": list(b), "two_d": False, "route": "numpy", "must_accept": True,
                          "bs_form": forms[len(items) % len(forms)], "tall": len(items) % 5 == 0})
    for rate, bs in gen.SETTINGS_2D:
        for r, b in spellings(rate, bs):
            items.append({"check": "valid", "bpv": r, "bs": list(b), "two_d": True, "route": "segy", "must_accept": True,
                          "bs_form": forms[len(items) % len(forms)]})
    # the same through the command line: every valid setting in its integer spellings must be accepted, and a
    # sample of the grid must fall in the same class as through the API
    is_int = lambda v: isinstance(v, (int, np.integer)) and not isinstance(v, bool)
    for two_d, settings in ((False, gen.SETTINGS_3D), (True, [s_ for s_ in gen.SETTINGS_2D if s_[0] >= 1])):
        for rate, bs in settings:
            for r, b in spellings(rate, bs):
                if is_int(r):
                    items.append({"check": "valid-cli", "bpv": int(r), "bs": list(b), "two_d": two_d, "route": "cli", "must_accept": True})
    for two_d in (False, True):
        for k, (bpv, bs) in enumerate(grid(two_d)):
            if is_int(bpv) and k % 23 == 0:
                items.append({"check": "grid-cli", "bpv": int(bpv), "bs": list(bs), "two_d": two_d, "route": "cli",
                              "convert_anyway": k % 3 == 0})
    mine = items[ctx.shard::ctx.nshards]
    # one converter object asked for many valid settings in a row (a caller walking the grid for one source
    # file): every one of them is accepted, the 40th as the first
    if ctx.shard < 4:
        try:
            n_multi = many_settings_one_converter(ctx, ctx.shard)
            ctx.extra["settings_through_one_converter"] = n_multi
        except Violation as v:
            ctx.failures.append({"kind": v.kind, "detail": v.detail, "case": {"check": "multi", "which": ctx.shard}})
            return
    for case in mine:
        try:
            ctx.evaluate(case, run_case)
        except Violation as v:
            ctx.failures.append({"kind": v.kind, "detail": v.detail, "case": case})
            if len(ctx.failures) >= 3:
                return
    ctx.exhaustive = True
    ctx.extra["grid_tuples"] = len(mine)


def replay(case, ctx):
    if case.get("check") == "multi":
        return replay_multi(case, ctx)
    run_case(case, ctx)

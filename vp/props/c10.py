"""C10 cropping: the cropped file is exactly the requested block-aligned sub-cube."""
import os
import struct
import numpy as np
from hypothesis import strategies as st

from .. import files, ops, spec, stages
from ..core import Violation

META = {
    "level": "exploration",
    "rule": ("case = source SGZ (spec-writer made: 4x4xN, NxNx4 and general layouts, all rates, format versions on "
             "both sides of the 0.2.1 gate, 2-5 footer arrays, ascending/descending/negative axes, dims around block "
             "multiples) x a crop request by index or by coordinate with per-axis class {none, aligned, unaligned low, "
             "unaligned high, to the end, whole} or an invalid request {no range, negative, beyond the end, empty, "
             "inverted, coordinate off the axis}; valid -> conformance + volume/axes/headers equal the source "
             "restricted to the widened box; invalid -> IndexError and no output; a source that is not a regular cube "
             "(irregular survey, 2D line) x any valid box -> refused, and nothing written or changed at the output path; non-trivial = unaligned on >=1 "
             "axis, or ending in a partial block, or >=3 header arrays; distinct = (layout, per-axis box class, by, n_arrays)"),
    "assumptions": [
        "truth of the source = the harness's spec-only decode of its bytes; cropping must not re-compress, so equality is bitwise",
        "the version stamp of a cropped file may be the source's or the cropping library's, as long as the file follows the conventions of the stamp it carries",
        "for layouts other than 4x4xN the statement allows either a refusal (any exception, no output file) or a fully correct file",
        "an irregular survey or a 2D line has no faithful crop (the cropped file is always a regular cube): the only correct outcome is a refusal (any exception) that leaves the output path as it was",
    ],
}

AX_CLASSES = ["none", "aligned", "low", "high", "end", "whole", "one"]


@st.composite
def axis_box(draw, n, b):
    c = draw(st.sampled_from(AX_CLASSES))
    if c == "none":
        return None, c
    if c == "whole":
        return [0, n], c
    nb = -(-n // b)
    if c == "aligned":
        k0 = draw(st.integers(0, nb - 1))
        k1 = draw(st.integers(k0 + 1, nb))
        return [k0 * b, min(k1 * b, n)], c
    if c == "end":
        lo = draw(st.integers(0, n - 1))
        return [lo, n], c
    if c == "one":
        lo = draw(st.integers(0, n - 1))
        return [lo, lo + 1], c
    lo = draw(st.integers(0, n - 1))
    hi = draw(st.integers(lo + 1, n))
    return [lo, hi], c


@st.composite
def invalid_box(draw, n):
    k = draw(st.sampled_from(["negative", "beyond", "empty", "inverted", "far"]))
    if k == "negative":
        return [-draw(st.integers(1, 5)), draw(st.integers(1, n))], k
    if k == "beyond":
        return [draw(st.integers(0, n - 1)), n + draw(st.integers(1, 9))], k
    if k == "far":
        return [n + 3, n + 9], k
    if k == "empty":
        a = draw(st.integers(0, n))
        return [a, a], k
    a = draw(st.integers(1, n))
    return [a, draw(st.integers(0, a - 1))], k


@st.composite
def cases(draw, ctx, layouts):
    desc = draw(files.spec_file_3d(irregular=False, max_voxels=120_000, layouts=layouts,
                                   versions=["0.1.3", "0.1.6", "0.1.7", "0.2.1", "0.2.2.dev", "0.2.8", "0.2.8", "1.0.0"]))
    n = desc["shape"]
    bs = desc["blockshape"]
    kind = draw(st.sampled_from(["valid", "valid", "valid", "invalid"]))
    boxes, classes = [], []
    for k in range(3):
        b, c = draw(axis_box(n[k], bs[k]))
        boxes.append(b)
        classes.append(c)
    case = {"file": desc, "by": draw(st.sampled_from(["index", "coord"])), "kind": kind,
            "boxform": draw(st.sampled_from(["tuple", "tuple", "list", "array", "npint"])), "relative": draw(st.integers(0, 4)) == 0}
    if kind == "invalid":
        which = draw(st.sampled_from(["allnone", 0, 1, 2, "offaxis"]))
        if which == "allnone":
            boxes, classes = [None, None, None], ["none"] * 3
        elif which == "offaxis":
            case["by"] = "coord"
            case["offaxis"] = draw(st.integers(0, 1))
            if boxes[case["offaxis"]] is None:
                boxes[case["offaxis"]] = [0, n[case["offaxis"]]]
        else:
            boxes[which], classes[which] = draw(invalid_box(n[which]))
            if classes[which] in ("negative", "beyond", "far"):
                case["by"] = "index"
        case["bad"] = which
    elif all(b is None for b in boxes):
        boxes[0], classes[0] = [0, n[0]], "whole"
    case["box"] = boxes
    case["classes"] = classes
    if kind == "valid" and draw(st.integers(0, 2)) == 0:
        # the cropper is an SgzReader: it may have served other calls before it is asked to crop
        case["before"] = draw(st.lists(st.sampled_from(["get_tracefield_values", "gen_trace_header", "read_inline", "get_trace",
                                                        "read_variant_headers_one"]), min_size=1, max_size=3))
        case["bu"] = [draw(st.floats(0, 1, exclude_max=True)) for _ in range(3)]
    if kind == "valid" and draw(st.integers(0, 3)) == 0:
        # the same cropper object writes a second file (another box): both must be right
        b2 = [draw(axis_box(n[k], bs[k]))[0] for k in range(3)]
        if all(b is None for b in b2):
            b2[1] = [0, n[1]]
        case["again"] = b2
    return case


@st.composite
def unsupported_cases(draw, ctx):
    """Sources the cropper cannot re-address: its output is always a regular cube (one trace and one value of
    every header array per grid position), so an irregular survey or a 2D line has no faithful crop."""
    if draw(st.integers(0, 3)) == 0:
        desc = draw(files.spec_file_2d(max_voxels=40_000))
        n = [1, desc["shape"][0], desc["shape"][1]]
    else:
        desc = draw(files.spec_file_3d(irregular=True, max_voxels=60_000, layouts=("4x4", "4x4", "zs", "gen"), versions=["0.2.8"]))
        n = desc["shape"]
    bs = desc["blockshape"]
    boxes = [draw(axis_box(n[k], bs[k]))[0] for k in range(3)]
    if all(b is None for b in boxes):
        boxes[1] = [0, n[1]]
    return {"file": desc, "kind": "unsupported-source", "box": boxes, "existing_output": draw(st.booleans()),
            "before": draw(st.sampled_from([None, None, "get_tracefield_values", "gen_trace_header"]))}


def run_unsupported(case, ctx):
    from seismic_zfp.cropping import SgzCropper
    d = ctx.tmp()
    path, T = files.build(case["file"], d, "src.sgz")
    out = os.path.join(d, "crop.sgz")
    sentinel = None
    if case.get("existing_output"):
        sentinel = b"previous content of the output path " * 7
        with open(out, "wb") as fh:
            fh.write(sentinel)
    box = [None if b is None else tuple(b) for b in case["box"]]
    what = "2D line" if T.is_2d else f"irregular survey ({T.n_tr} traces on a {T.n_il} x {T.n_xl} grid)"
    exc = None
    cropper = SgzCropper(path)
    try:
        if case.get("before") == "get_tracefield_values" and T.owners:
            cropper.get_tracefield_values(T.owners[0])
        elif case.get("before") == "gen_trace_header":
            cropper.gen_trace_header(T.n_tr - 1)
        try:
            cropper.write_cropped_file_by_indexes(out, box[0], box[1], box[2])
        except Exception as e:
            exc = e
    finally:
        cropper.close()
    if exc is None:
        raise Violation("unsupported-source-not-refused", f"crop {case['box']} of a {what} returned normally "
                        f"(output {os.path.getsize(out) if os.path.exists(out) else 'absent'} bytes)")
    if sentinel is not None:
        if not os.path.exists(out) or open(out, "rb").read() != sentinel:
            raise Violation("refusal-touched-existing-output", f"crop {case['box']} of a {what} was refused ({type(exc).__name__}) but "
                            f"the file already at the output path was changed or removed")
    elif os.path.exists(out):
        raise Violation("refusal-left-output", f"crop {case['box']} of a {what} was refused ({type(exc).__name__}: {exc}) but left "
                        f"{os.path.getsize(out)} bytes at the output path")
    return {"sig": ["unsupported", "2d" if T.is_2d else case["file"]["family"], bool(sentinel), case.get("before"), [b is None for b in box]],
            "labels": ["unsupported-source", "2d" if T.is_2d else "irregular", type(exc).__name__]}


def to_coords(T, box, k, offaxis=False, zaxis=None):
    if box is None:
        return None
    ax = [T.ilines, T.xlines, T.samples][k]
    if k == 2 and zaxis is not None:
        # sample coordinates are floats: take the value the reader itself reports for that sample (already
        # checked to be the source's within rounding), so that the lookup is by an exact axis value
        ax = zaxis
    inc = ax[1] - ax[0]

    def c(i):
        # one past the end: "last value plus the last step", the expression a caller has to write for a float axis
        v = ax[i] if i < len(ax) else ax[-1] + (ax[-1] - ax[-2] if len(ax) > 1 else inc)
        return int(v) if k < 2 or float(v).is_integer() else float(v)
    lo, hi = c(box[0]), c(box[1])
    if offaxis:
        lo = int(np.max(ax) + 3 * abs(inc) + 1)   # a coordinate that is neither on the axis nor its stop value
    return (lo, hi)


def source_stage(T):
    from seismic_zfp.version import SeismicZfpVersion
    import pkg_resources
    cur = SeismicZfpVersion(pkg_resources.get_distribution("seismic_zfp").version).encoding
    return stages.Stage(vol=T.V, il=T.ilines, xl=T.xlines, samples=T.samples,
                        headers=[T.header(i) for i in range(T.n_tr)], pos=list(T.pop), tracecount=T.n_tr,
                        rate=T.s.rate, bs=T.s.blockshape, versions={T.s.version, cur},
                        source_code=T.s.source_code, detection_code=T.s.detection_code, hash=T.s.hash)


def run_case(case, ctx):
    from seismic_zfp.cropping import SgzCropper
    if case["kind"] == "unsupported-source":
        return run_unsupported(case, ctx)
    d = ctx.tmp()
    path, T = files.build(case["file"], d, "src.sgz")
    out = os.path.join(d, "crop.sgz")
    # the form the ranges arrive in: tuples, lists, rows of an integer array, pairs of NumPy scalars
    mk = {"list": list, "array": lambda b: np.array(b, dtype=np.int64), "npint": lambda b: (np.int32(b[0]), np.int64(b[1]))}.get(case.get("boxform"), tuple)
    box = [None if b is None else mk(b) for b in case["box"]]
    fam = case["file"]["family"]
    exc = None
    sentinel = None
    if case["kind"] == "invalid" and case["file"]["values"]["vseed"] % 2:
        # something already stored under the output name: a refused request must not have touched it
        sentinel = b"previous content of the output path " * 7
        with open(out, "wb") as fh:
            fh.write(sentinel)
    if case["kind"] == "valid":
        from .. import conv
        conv.leave_stale(out, repr(case["box"]) + repr(case["file"]["shape"]))
    out2, box2, exc2 = os.path.join(d, "crop2.sgz"), None, None
    # (one cropper in five is created from a path relative to the directory the program is in at that moment)
    cropper = ops.open_relative(SgzCropper, path) if case.get("relative") else SgzCropper(path)
    try:
        for k, b in enumerate(case.get("before", [])):
            u = case["bu"][k]
            try:
                if b == "get_tracefield_values":
                    cropper.get_tracefield_values(T.owners[int(u * len(T.owners))])
                elif b == "read_variant_headers_one":
                    import segyio
                    cropper.read_variant_headers(tracefields=[segyio.tracefield.TraceField(T.owners[int(u * len(T.owners))])])
                elif b == "gen_trace_header":
                    cropper.gen_trace_header(int(u * T.n_tr))
                elif b == "read_inline":
                    cropper.read_inline(int(u * T.n_il))
                elif b == "get_trace":
                    cropper.get_trace(int(u * T.n_tr))
            except Exception as e:
                raise Violation(f"earlier-call-failed:{b}", f"{b} on the cropper object: {type(e).__name__}: {e}")
        try:
            if case["by"] == "index":
                cropper.write_cropped_file_by_indexes(out, box[0], box[1], box[2])
                if case.get("again"):
                    box2 = [None if b is None else tuple(b) for b in case["again"]]
                    try:
                        cropper.write_cropped_file_by_indexes(out2, box2[0], box2[1], box2[2])
                    except Exception as e2:
                        exc2 = e2
            else:
                zaxis = np.array(cropper.zslices, dtype=np.float64)
                if len(zaxis) != len(T.samples) or (np.abs(zaxis - T.samples) > 1e-9 + 1e-12 * np.abs(T.samples)).any():
                    raise Violation("source-sample-axis", f"reader reports {zaxis[:3]}.., the file states {T.samples[:3]}..")
                cb = [to_coords(T, None if case["box"][k] is None else tuple(case["box"][k]), k, offaxis=(case.get("offaxis") == k), zaxis=zaxis) for k in range(3)]
                mkc = {"list": list, "array": np.array}.get(case.get("boxform"), tuple)
                cb = [None if v is None else mkc(v) for v in cb]
                cropper.write_cropped_file_by_coords(out, cb[0], cb[1], cb[2])
        except Exception as e:
            exc = e
    finally:
        cropper.close()
    labels = [fam, case["kind"], "by-" + case["by"]]
    if case["kind"] == "invalid":
        if not isinstance(exc, IndexError):
            raise Violation("invalid-request-not-refused",
                            f"request {case['box']} ({case.get('bad')}) on dims {case['file']['shape']}: "
                            + ("no exception" if exc is None else f"{type(exc).__name__}: {exc}"))
        if sentinel is not None:
            if not os.path.exists(out) or open(out, "rb").read() != sentinel:
                raise Violation("invalid-request-touched-existing-output", f"{case['box']}: the file already at the output path was changed or removed")
        elif os.path.exists(out):
            raise Violation("invalid-request-left-output", f"{case['box']}: output exists ({os.path.getsize(out)} bytes)")
        return {"sig": [fam, "invalid", str(case.get("bad")), case["classes"], case["by"]], "labels": labels}
    if exc is not None:
        if fam != "4x4" and not os.path.exists(out):
            return {"sig": None, "labels": labels + ["refused-layout"]}   # allowed: refusal, no output
        raise Violation(f"valid-crop-failed:{type(exc).__name__}", f"{case['box']} on {files.describe(case['file'])}: {exc}")
    src = source_stage(T)
    from seismic_zfp.read import SgzReader

    def check_crop(path_, box_, what):
        want, w = stages.crop_stage(src, box_)
        # file headers unchanged except the documented sample-count patch
        sh = bytearray(T.raw[4096:4096 + 3600])
        if len(want.samples) <= 0xFFFF:     # (a 16-bit field: longer traces cannot be stated in it)
            sh[3220:3222] = struct.pack(">H", len(want.samples))
        want.segy_header = bytes(sh)
        stages.check_file(path_, want, what)
        # every stored tracefield array equals the source's restricted to the box
        (i0, i1), (x0, x1), _ = w
        with SgzReader(path_) as r:
            for f in T.owners:
                a = np.asarray(r.get_tracefield_values(f))
                e = np.asarray(T.cols[f]).reshape(T.n_il, T.n_xl)[i0:i1, x0:x1]
                if a.shape != e.shape or not np.array_equal(a, e):
                    raise Violation("cropped-tracefield", f"{what}: field {f} differs from the source's sub-array")
        return w
    w = check_crop(out, [None if b is None else tuple(int(x) for x in b) for b in case["box"]], "cropped")
    if box2 is not None:
        if exc2 is not None:
            if not (fam != "4x4" and not os.path.exists(out2)):
                raise Violation(f"second-crop-failed:{type(exc2).__name__}", f"same cropper object, second box {case['again']}: {exc2}")
        else:
            check_crop(out2, box2, "cropped-again")
    bs = T.s.blockshape
    unaligned = any(b is not None and (b[0] % bs[k] or (b[1] % bs[k] and b[1] != case["file"]["shape"][k])) for k, b in enumerate(box))
    partial = any(w[k][1] % bs[k] for k in range(3))
    nontriv = unaligned or partial or len(T.owners) >= 3
    return {"sig": [fam, case["classes"], case["by"], len(T.owners), partial] if nontriv else None,
            "labels": labels + (["unaligned"] if unaligned else []) + (["partial-end"] if partial else [])
            + (["cropper-reused"] if box2 is not None else []) + ["before:" + b for b in case.get("before", [])]}


# a source whose data section exceeds 16 MiB (132 x 128 x 640 at 16 bits: 5280 disk blocks), cropped in inlines only, so that
# the copied blocks form one contiguous run of more than 16 MiB
BIG_FILE = {"kind": "spec", "family": "4x4", "rate": 16, "blockshape": [4, 4, 128], "shape": [132, 128, 640], "version": "0.2.8",
            "values": {"kind": "gauss", "vseed": 41}, "il": [1, 1], "xl": [1, 1], "z0": 0, "dz_us": 4000, "arrays": [189, 193], "dups": []}


def shard_main(ctx):
    if ctx.shard == 9:
        case = {"file": BIG_FILE, "by": "index", "kind": "valid", "box": [[4, 128], None, None], "classes": ["aligned", "none", "none"], "boxform": "tuple"}
        try:
            ctx.evaluate(case, run_case)
        except Violation as v:
            ctx.failures.append({"kind": v.kind, "detail": v.detail, "case": case})
            return
    if not ctx.explore("crop4x4", cases(ctx, ("4x4",)), run_case, ctx.n(150, 1500)):
        return
    if not ctx.explore("cropother", cases(ctx, ("zs", "gen")), run_case, ctx.n(80, 800)):
        return
    ctx.explore("unsupported", unsupported_cases(ctx), run_case, ctx.n(40, 400))


def replay(case, ctx):
    run_case(case, ctx)

"""C08 irregular 3D surveys: trace identity, inferred grid and zero-filled holes."""
import os
import numpy as np
from hypothesis import strategies as st

from .. import codec, conv, files, gen, ops, sources, stages
from ..core import Violation
from .c03 import MODE_CODE

META = {
    "level": "exploration",
    "rule": ("case = proper subset of an n_il x n_xl grid (2..12 each) built so that every inline and crossline keeps "
             ">= 1 trace (one trace per line first, then a drawn subset), independent starts (negative, zero-crossing, "
             "positive) and increments 1..7, inline-major ascending trace order, arbitrary header content, mode in "
             "{heuristic, thorough, exhaustive}, any valid setting, + 1-10 read calls; one case in three is preceded, in the "
             "same process and under the same output name, by the conversion and trace-wise reading of the survey with the "
             "point-reflected hole pattern; oracle: reported grid = range "
             "of line numbers with each axis's own increment, trace count, structured False, trace i / header i = "
             "i-th source trace image / header, get_tracefield_values = grid with zeros at holes, every volume-style "
             "read = slice of the ZFP image of the zero-filled zero-extended grid (bitwise), spec-only decode likewise; "
             "non-trivial = il_step != xl_step, or a hole that is not the last grid position, or a line number <= 0; "
             "distinct = (step pair class, hole pattern class, start signs, mode, layout family)"),
    "assumptions": [
        "libzfp image of the zero-filled grid extended with zeros is the expected volume",
        "segyio's reading of the generated SEG-Y gives the source traces and headers",
        "'strip' is outside the quantifier (the inline-number array must be kept)",
    ],
}

METHODS = ["read_inline", "read_inline_number", "read_crossline", "read_crossline_number", "read_zslice",
           "read_zslice_coord", "read_subvolume", "read_subvolume", "read_volume", "get_trace", "get_trace_window",
           "cdiag", "adiag", "iline", "xline", "depth_slice", "trace", "header", "gen_trace_header",
           "gen_trace_header_all", "get_tracefield_values", "subvolume_acc", "xarray", "tools.cube"]


@st.composite
def cases(draw):
    src = draw(sources.segy_source(geom="irregular", max_dim=12, max_ns=24, allow_mid=True))
    rate, bs = draw(st.sampled_from(gen.SETTINGS_3D))
    mode = draw(st.sampled_from(["heuristic", "thorough", "exhaustive"]))
    n = draw(st.integers(1, 10))
    return {"src": src, "setting": {"rate": rate, "blockshape": list(bs)}, "mode": mode,
            "ops": [draw(ops.abstract_op(METHODS)) for _ in range(n)], "shared_reader": draw(st.booleans()),
            "prior": draw(st.integers(0, 2)) == 0}


def hole_class(src):
    grid = src["n_il"] * src["n_xl"]
    holes = sorted(set(range(grid)) - set(src["keep"]))
    return ["last-only" if holes == [grid - 1] else "first" if 0 in holes else "interior",
            "many" if len(holes) > grid // 3 else "few"]


def run_case(case, ctx):
    d = ctx.tmp()
    S = sources.build(case["src"], d)
    sources.annotate(case, S)
    src = case["src"]
    rate, bs = case["setting"]["rate"], tuple(case["setting"]["blockshape"])
    out = os.path.join(d, "o.sgz")
    prior = None
    if case.get("prior"):
        # state that is not in the arguments: the same process has already converted, under the same output name, and
        # read trace-wise another irregular survey of the same grid and trace count whose holes lie elsewhere (the
        # point reflection of this one's); the file is then replaced.  Nothing remembered from it may show.
        grid_n = src["n_il"] * src["n_xl"]
        mirrored = sorted(grid_n - 1 - g for g in src["keep"])
        prior = "prior-same-holes" if mirrored == sorted(src["keep"]) else "prior-other-holes"
        try:
            pd_ = os.path.join(d, "prior"); os.makedirs(pd_, exist_ok=True)
            P = sources.build(dict(src, keep=mirrored), pd_)
            conv.segy_convert(P.path, out, rate, bs, header_detection=case["mode"])
            from seismic_zfp.read import SgzReader as _R
            with _R(out) as r0:
                for i in sorted({0, P.n - 1, P.n // 2}):
                    r0.get_trace(i); r0.gen_trace_header(i)
                r0.get_tracefield_values(189); r0.read_inline(0)
        except Exception:
            prior = "prior-failed"
    conv.segy_convert(S.path, out, rate, bs, header_detection=case["mode"])
    n_il, n_xl, ns = src["n_il"], src["n_xl"], src["ns"]
    grid = np.zeros((n_il * n_xl, ns), dtype=np.float32)
    grid[S.pos] = S.traces
    headers = S.headers if (case["mode"] != "heuristic" or S.heuristic_ok) else None
    want = stages.Stage(vol=codec.image(grid.reshape(n_il, n_xl, ns), rate, "zero"), il=np.array(S.grid_il),
                        xl=np.array(S.grid_xl), samples=S.samples, headers=headers, pos=list(S.pos), tracecount=S.n,
                        rate=rate, bs=bs, source_code=0, detection_code=MODE_CODE[case["mode"]], segy_header=S.file_header)
    stages.check_file(out, want, "irregular")
    # all read paths against the (now validated) independent decode of the file
    T = files.Truth(conv.read_bytes(out))
    if headers is None:
        aops = [a for a in case["ops"] if a["m"] not in ops.METHODS_3D_HEADERS]
    else:
        aops = case["ops"]
    labels = ops.run_ops(out, T, aops, fresh=not case.get("shared_reader"))
    if case.get("shared_reader"):
        labels.append("shared-reader")
    if prior:
        labels.append(prior)
    # trace i is the i-th source trace
    from seismic_zfp.read import SgzReader
    with SgzReader(out) as r:
        for i in sorted({0, S.n - 1, S.n // 2}):
            got = np.asarray(r.get_trace(i))
            w = want.vol.reshape(-1, ns)[S.pos[i]]
            if not codec.bits_equal(got, w):
                raise Violation("trace-identity", f"get_trace({i}) is not the image of source trace {i}")
    il_s, xl_s = src["il"][1], src["xl"][1]
    hc = hole_class(src)
    nontriv = il_s != xl_s or hc[0] != "last-only" or src["il"][0] <= 0 or src["xl"][0] <= 0
    fam = "4x4" if bs[:2] == (4, 4) else ("zs" if bs[2] == 4 else "gen")
    return {"sig": [il_s == xl_s, min(il_s, 3), min(xl_s, 3), hc, src["il"][0] <= 0, src["xl"][0] <= 0, case["mode"], fam, rate, n_il % 4, n_xl % 4]
            if nontriv else None, "labels": labels + [case["mode"], fam, "holes:" + hc[0]]}


def shard_main(ctx):
    if ctx.shard == 3:
        # one irregular survey of more than 65 536 traces, every run (vp/big.py)
        from .. import big
        case = {"src": big.IRREGULAR, "setting": {"rate": 16, "blockshape": [4, 4, 128]}, "mode": "heuristic", "ops": [], "shared_reader": True}
        try:
            ctx.evaluate(case, run_case)
        except Violation as v:
            ctx.failures.append({"kind": v.kind, "detail": v.detail, "case": case})
            return
    ctx.explore("irregular", cases(), run_case, ctx.n(150, 2000))


def replay(case, ctx):
    run_case(case, ctx)

"""C11 converting with an inline/crossline window equals converting the windowed cube."""
import os
import numpy as np
from hypothesis import strategies as st

from .. import codec, conv, gen, sgy, sources, spec, stages
from ..core import Violation
from ..spec import FIELDS
from .c03 import MODE_CODE

META = {
    "level": "exploration",
    "rule": ("case = regular SEG-Y (3..14 lines per axis, header content as in C04) x window 0 <= min < max <= n on "
             "both axes (min = 0 and max = n weighted) x reduce_iops x detection mode x setting, through the API or "
             "the CLI options; differential oracle: a second SEG-Y holding only the windowed traces is converted with "
             "the same setting, and the two SGZ files must agree on data-section bytes, read_volume, axes, trace count, "
             "structured flag, all 89 fields of every trace, stored tracefield arrays and hash; the windowed file must "
             "also satisfy C01's codec oracle and the C03 validator; non-trivial = window differs from the full cube; "
             "distinct = (min_il == 0, min_xl == 0, max == n flags, reader, mode, stride class of full vs window, layout)"),
    "assumptions": [
        "header tables are not compared byte-wise (heuristic classification legitimately depends on which traces are first and last)",
        "heuristic mode asserted only when the statement's precondition holds on the *source file* (whose first/last traces the library inspects)",
        "windows keep at least 2 lines per axis (a single line is a 2D line for the converter)",
    ],
}


@st.composite
def bound(draw, n):
    lo = draw(st.sampled_from([0, 0, None]))
    if lo is None:
        lo = draw(st.integers(0, n - 1))
    hi = draw(st.sampled_from([n, n, None]))
    if hi is None:
        hi = draw(st.integers(lo + 1, n))
    return lo, max(hi, lo + 1)


WINDOW_TYPES = {"int": int, "np64": np.int64, "np32": np.int32, "intp": np.intp}


@st.composite
def cases(draw):
    n_il, n_xl = draw(st.integers(3, 14)), draw(st.integers(3, 14))
    if draw(st.booleans()):
        n_il, n_xl = draw(st.sampled_from([(8, 16), (16, 16), (9, 14), (12, 11)]))
    src = draw(sources.segy_source(geom="regular", max_ns=20, allow_mid=True, dims=(n_il, n_xl)))
    i0, i1 = draw(bound(n_il))
    x0, x1 = draw(bound(n_xl))
    rate, bs = draw(st.sampled_from([s for s in gen.SETTINGS_3D if s[1][0] <= 16 and s[1][1] <= 16]))
    prior = None
    if draw(st.integers(0, 3)) == 0:
        # an earlier conversion, in the same process, of another survey stored under the same file name (whole
        # cube; its last inline is, half of the time, the ordinal at which the window of the main case starts)
        prior = {"n_il": (i0 + 1 if i0 >= 1 and draw(st.booleans()) else draw(st.integers(2, n_il))), "vseed": draw(st.integers(0, 2 ** 32 - 1))}
    return {"src": src, "window": [i0, i1, x0, x1], "reduce": draw(st.booleans()), **({"prior": prior} if prior else {}),
            "mode": draw(st.sampled_from(["heuristic", "thorough", "exhaustive", "strip"])),
            "setting": {"rate": rate, "blockshape": list(bs)}, "via": draw(st.sampled_from(["api", "api", "cli"])),
            # the form the window ordinals arrive in (np.argmin / array indexing hand over NumPy integers)
            "wtype": draw(st.sampled_from(["int", "int", "np64", "np32", "intp"]))}


def run_case(case, ctx):
    from seismic_zfp.read import SgzReader
    d = ctx.tmp()
    if case.get("prior"):
        pdesc = dict(case["src"], n_il=max(2, case["prior"]["n_il"]), values={"kind": "gauss", "vseed": case["prior"]["vseed"]}, ext=0)
        P = sources.build(pdesc, d)
        conv.segy_convert(P.path, os.path.join(d, "prior.sgz"), case["setting"]["rate"], tuple(case["setting"]["blockshape"]),
                          reduce_iops=case["reduce"], header_detection=case["mode"])
    S = sources.build(case["src"], d)
    if case.get("prior") and S.path != P.path:
        raise RuntimeError("harness: prior and main source are meant to share a path")
    n_il, n_xl, ns = case["src"]["n_il"], case["src"]["n_xl"], case["src"]["ns"]
    i0, i1, x0, x1 = case["window"]
    rate, bs = case["setting"]["rate"], tuple(case["setting"]["blockshape"])
    mode = case["mode"]
    # reference: a SEG-Y holding only the windowed traces (same file headers), converted alone.  A window one
    # line wide has no such reference (a single line is a 2D section for the converter): it is checked against
    # the source restricted to the window only
    have_ref = (i1 - i0) >= 2 and (x1 - x0) >= 2
    sel = [i * n_xl + x for i in range(i0, i1) for x in range(x0, x1)]
    cols = {c: np.broadcast_to(np.asarray(v), (S.n,))[sel] for c, v in S.cols.items()}
    ref_sgy = os.path.join(d, "ref.sgy")
    il, xl = list(S.ilines[i0:i1]), list(S.xlines[x0:x1])
    if have_ref:
        # the reference holds the source traces as segyio decodes them, in IEEE (IBM -> float -> IBM is not idempotent)
        sgy.write_segy(ref_sgy, S.traces[sel], cols, case["src"]["dt_us"], fmt=5, grid=(il, xl),
                       ext_headers=case["src"]["ext"], text=sources.text_header(case["src"]["text_seed"]),
                       bin_extra=case["src"].get("bin"))
        ref_src = sgy.read_source(ref_sgy)
        if not codec.bits_equal(ref_src["traces"], S.traces[sel]):
            raise RuntimeError("harness: reference SEG-Y does not hold the windowed traces")
    ref = os.path.join(d, "ref.sgz")
    win = os.path.join(d, "win.sgz")
    # the windowed conversion comes first (directly after the optional prior conversion), the reference after it
    if case["via"] == "api":
        conv.leave_stale(win, repr(case["window"]) + repr(case["src"].get("values")))
        conv.segy_convert(S.path, win, rate, bs, reduce_iops=case["reduce"], header_detection=mode, window=tuple(WINDOW_TYPES[case.get("wtype") or "int"](v) for v in (i0, i1, x0, x1)))
        if have_ref:
            conv.segy_convert(ref_sgy, ref, rate, bs, header_detection=mode)
    else:
        if mode != "heuristic":
            case = dict(case, mode="heuristic")   # the CLI has no detection option
            mode = "heuristic"
        bpv = rate if rate >= 1 else -int(round(1 / rate))
        code, exc = conv.cli_invoke(["sgy2sgz", S.path, win, "--bits-per-voxel", int(bpv), "--blockshape", *bs,
                                     "--reduce-iops", "True" if case["reduce"] else "False",
                                     "--min-il", i0, "--max-il", i1, "--min-xl", x0, "--max-xl", x1])
        if code != 0:
            raise Violation("cli-failed", f"exit {code}: {exc!r}")
        if have_ref:
            conv.segy_convert(ref_sgy, ref, rate, bs, header_detection=mode)
    a = spec.SgzSpec(conv.read_bytes(win))
    if have_ref:
        b = spec.SgzSpec(conv.read_bytes(ref))
        da = a.raw[a.data_start:a.footer_start]
        db = b.raw[b.data_start:b.footer_start]
        if (a.n_il, a.n_xl, a.n_samples) != (b.n_il, b.n_xl, b.n_samples):
            raise Violation("window-dimensions", f"windowed file {a.n_il}x{a.n_xl}x{a.n_samples}, windowed cube {b.n_il}x{b.n_xl}x{b.n_samples}")
        if da != db:
            raise Violation("window-data-section", f"data sections differ ({len(da)} vs {len(db)} bytes)")
        if a.hash != b.hash:
            raise Violation("window-hash", f"{a.hash.hex()} vs {b.hash.hex()}")
    else:
        import hashlib
        want_hash = hashlib.sha1(np.ascontiguousarray(S.cube[i0:i1, x0:x1], dtype="<f4").tobytes()).digest()
        if a.hash != want_hash:
            raise Violation("window-hash", f"{a.hash.hex()} is not the SHA-1 of the windowed samples {want_hash.hex()}")
    # the windowed file on its own: conformance + codec oracle + headers of the windowed traces
    headers = [S.headers[t] for t in sel]
    if mode == "strip":
        headers = [{f: 0 for f in FIELDS} for _ in sel]
    elif mode == "heuristic" and not S.heuristic_ok:
        headers = None
    cube = S.cube[i0:i1, x0:x1]
    want = stages.Stage(vol=codec.image(cube, rate), il=np.array(il), xl=np.array(xl), samples=S.samples, headers=headers,
                        pos=list(range(len(sel))), tracecount=len(sel), rate=rate, bs=bs, source_code=0,
                        detection_code=MODE_CODE[mode], segy_header=S.file_header)
    stages.check_file(win, want, "windowed")
    with SgzReader(win) as rw:
        if have_ref:
            with SgzReader(ref) as rr:
                for name in ("ilines", "xlines", "zslices"):
                    if not np.array_equal(getattr(rw, name), getattr(rr, name)):
                        raise Violation("window-axes", f"{name}: {getattr(rw, name)[:5]} vs {getattr(rr, name)[:5]}")
                if rw.tracecount != rr.tracecount or rw.structured != rr.structured:
                    raise Violation("window-counts", f"{rw.tracecount}/{rw.structured} vs {rr.tracecount}/{rr.structured}")
        if headers is not None:
            # stored arrays hold the windowed traces' values (compared with the source, not with the reference
            # file: the reference's own heuristic classification depends on *its* first and last trace)
            for f in (int(k) for k in rw.stored_header_keys):
                e = np.array([h[f] for h in headers]).reshape(i1 - i0, x1 - x0)
                if not np.array_equal(np.asarray(rw.get_tracefield_values(f)), e):
                    raise Violation("window-tracefield", f"field {f}: stored array differs from the windowed traces' values")
    full = (i0, i1, x0, x1) == (0, n_il, 0, n_xl)
    fam = "4x4" if bs[:2] == (4, 4) else "other"
    return {"sig": [i0 == 0, x0 == 0, i1 == n_il, x1 == n_xl, case["reduce"], mode, (4 * S.n) % 512 == 0,
                    (4 * len(sel)) % 512 == 0, fam, case["via"]] if not full else None,
            "labels": [mode, case["via"], "reduced" if case["reduce"] else "segyio", "full" if full else "window",
                       "min0" if (i0 == 0 or x0 == 0) else "min>0"] + (["after-prior-conversion"] if case.get("prior") else [])
            + ([] if have_ref else ["one-line-window"])}


def shard_main(ctx):
    if ctx.shard in (7, 8):
        # a window whose inlines start beyond trace 65 536 of a survey of 66 306 traces, every run (vp/big.py)
        from .. import big
        case = {"src": big.REGULAR, "window": [254, 258, 3, 12] if ctx.shard == 7 else [256, 258, 0, 257], "reduce": ctx.shard == 8,
                "mode": "heuristic" if ctx.shard == 7 else "thorough", "setting": {"rate": 8, "blockshape": [4, 4, 256]}, "via": "api", "wtype": "int"}
        try:
            ctx.evaluate(case, run_case)
        except Violation as v:
            ctx.failures.append({"kind": v.kind, "detail": v.detail, "case": case})
            return
    ctx.explore("window", cases(), run_case, ctx.n(50, 1000))


def replay(case, ctx):
    run_case(case, ctx)

"""C12 re-blocking a default-layout 2-bit file to 64x64x4 changes the layout only."""
import os
import numpy as np
from hypothesis import strategies as st

from .. import env, files, gen, iomodel, ops, spec, stages
from ..core import Violation
from .c10 import source_stage

META = {
    "level": "exploration",
    "rule": ("case = 2-bit (4,4,1024) source made by the spec writer (n_il, n_xl drawn from {2..9, 60..68, 124..132}, "
             "n_samples from {2..9, 1020..1030}, 2-5 footer arrays incl. duplicate rows, regular and irregular, format "
             "versions on both sides of the 0.2.1 gate) re-blocked by SgzConverter.convert_to_adv_sgz, or an "
             "unsupported input (other rate/layout, 2D) which must be refused; oracle: conformance, bitwise-equal "
             "volume, equal axes/trace count/headers/hash; non-trivial = a dimension > 64 or not a multiple of 4, or "
             ">=2 arrays with 4*n %% 512 != 0; distinct = (per-axis class vs 64, n_arrays, stride class, regular/irregular, version)"),
    "assumptions": [
        "truth of the source = spec-only decode of its bytes; re-blocking moves compressed cells, so equality is bitwise on every real voxel",
        "the version stamp may be the source's or the library's as long as the footer follows the stamp's conventions",
        "a refusal is any exception; nothing is claimed about an output path after a refusal",
    ],
}

DIMS = list(range(2, 10)) + list(range(60, 69)) + list(range(124, 133))


def cls64(n):
    return ("lt" if n < 64 else "eq" if n == 64 else "gt" if n < 128 else "multi", n % 4)


@st.composite
def cases(draw):
    big_z = draw(st.sampled_from([False, False, True]))
    if big_z:
        n_il, n_xl = draw(st.integers(2, 9)), draw(st.integers(2, 9))
        ns = draw(st.integers(1020, 1030))
    else:
        n_il = draw(st.sampled_from(DIMS))
        n_xl = draw(st.sampled_from(DIMS if n_il < 100 else DIMS[:17]))
        ns = draw(st.integers(2, 9))
    version = draw(st.sampled_from(["0.1.7", "0.2.1", "0.2.2.dev", "0.2.8", "0.2.8", "1.0.0"]))
    desc = {"kind": "spec", "family": "4x4", "rate": 2, "blockshape": [4, 4, 1024], "shape": [n_il, n_xl, ns],
            "version": version, "values": draw(gen.values_spec),
            "il": list(draw(gen.line_axis(n_il))), "xl": list(draw(gen.line_axis(n_xl))),
            "z0": draw(st.sampled_from([0, 100, -8])), "dz_us": draw(st.sampled_from([4000, 2000, 500])),
            "pad_last": draw(st.booleans())}
    extra = draw(st.lists(st.sampled_from([1, 5, 73, 181, 185]), max_size=3, unique=True))
    desc["arrays"] = sorted([189, 193] + extra)
    desc["dups"] = [list(p) for p in draw(st.lists(st.sampled_from([(197, 189), (185, 181), (77, 73), (9, 5)]), max_size=2, unique=True))]
    if draw(st.sampled_from([False, False, True])) and spec.parse_version(version) > spec.V_0_2_1:
        grid = n_il * n_xl
        k = draw(st.integers(1, max(1, min(5, grid - 2))))
        desc["holes"] = sorted(draw(st.lists(st.integers(0, grid - 1), min_size=k, max_size=k, unique=True)))
        il0, ils = desc["il"]
        if any(il0 + ils * i == 0 for i in range(n_il)):
            desc["il"] = [abs(il0) + 1, abs(ils)]
    # the converter is an SgzReader: it may be opened with preload and may have served other calls before
    before = draw(st.lists(st.sampled_from(["gen_trace_header", "get_tracefield_values", "convert_to_segy", "read_inline",
                                            "read_zslice", "get_trace"]), max_size=3)) if draw(st.integers(0, 2)) == 0 else []
    # the form in which the source is handed over: named (str, Path, bytes), an open file, a file-like object
    # without an OS descriptor, a blob client; for the last two, one case in three lets one of the source's
    # range reads fail (exception, empty or short): the call must then raise or still write the right file
    form = draw(st.sampled_from(["str", "str", "path", "bytes", "fileobj", "nofd", "nofd", "blob", "blob", "relative"]))
    fault = None
    if form in ("nofd", "blob") and draw(st.integers(0, 2)) == 0:
        fault = [draw(st.floats(0, 1, exclude_max=True)), draw(st.sampled_from(["exception", "empty", "short", "exception-service"])),
                 draw(st.floats(0, 1, exclude_max=True))]
    return {"file": desc, "preload": draw(st.sampled_from([False, False, True])), "before": before,
            "u": [draw(st.floats(0, 1, exclude_max=True)) for _ in range(3)], "src_form": form, **({"fault": fault} if fault else {})}


@st.composite
def unsupported_cases(draw):
    if draw(st.booleans()):
        desc = draw(files.spec_file_2d(max_voxels=40_000))
    else:
        rate, bs = draw(st.sampled_from([s for s in gen.SETTINGS_3D if not (s[0] == 2 and s[1] == (4, 4, 1024))]))
        shape = draw(gen.shape3d(bs, max_voxels=60_000, max_traces=400, magnitudes="lines"))
        desc = {"kind": "spec", "family": "other", "rate": rate, "blockshape": list(bs), "shape": list(shape),
                "version": "0.2.8", "values": draw(gen.values_spec), "il": [1, 1], "xl": [1, 1], "arrays": [189, 193]}
    return {"file": desc, "unsupported": True}


def run_case(case, ctx):
    from seismic_zfp.conversion import SgzConverter
    d = ctx.tmp()
    path, T = files.build(case["file"], d, "src.sgz")
    out = os.path.join(d, "adv.sgz")
    exc = None
    sentinel = None
    if case.get("unsupported") and case["file"]["values"]["vseed"] % 2:
        sentinel = b"previous content of the output path " * 5
        with open(out, "wb") as fh:
            fh.write(sentinel)
    if not case.get("unsupported"):
        from .. import conv
        conv.leave_stale(out, repr(case["file"]["shape"]) + repr(case["file"]["values"]))
    opened = []
    form = case.get("src_form") or "str"
    if form == "nofd":
        backend = iomodel.CountingFile(path)
    elif form == "blob":
        backend = iomodel.CountingBlob(path)
    else:
        backend = None
    n_reads = None
    if backend is not None and case.get("fault") and not case.get("unsupported"):
        # an undisturbed run first, to learn how many range reads the re-blocking makes
        c0 = SgzConverter(backend, preload=bool(case.get("preload")))
        try:
            backend.arm()
            with env.quiet():
                c0.convert_to_adv_sgz(os.path.join(d, "dry.sgz"))
            n_reads = len(backend.log)
        except Exception as e:
            raise Violation(f"reblock-failed:{type(e).__name__}", f"{files.describe(case['file'])} given as {form}: {e}")
        finally:
            c0.close()
        os.remove(os.path.join(d, "dry.sgz"))
        backend = iomodel.CountingFile(path) if form == "nofd" else iomodel.CountingBlob(path)
    if form == "relative":
        c = ops.open_relative(SgzConverter, path, preload=bool(case.get("preload")))
    else:
        c = SgzConverter(backend if backend is not None else ops.in_form(path, form, opened), preload=bool(case.get("preload")))
    faulted = False
    try:
        u = case.get("u", [0.5, 0.5, 0.5])
        for k, b in enumerate(case.get("before", [])):
            try:
                with env.quiet():
                    if b == "gen_trace_header":
                        c.gen_trace_header(int(u[k] * T.n_tr))
                    elif b == "get_tracefield_values":
                        c.get_tracefield_values(T.owners[int(u[k] * len(T.owners))])
                    elif b == "convert_to_segy":
                        c.convert_to_segy(os.path.join(d, "exp.sgy"))
                    elif b == "read_inline":
                        c.read_inline(int(u[k] * T.n_il))
                    elif b == "read_zslice":
                        c.read_zslice(int(u[k] * T.n_s))
                    elif b == "get_trace":
                        c.get_trace(int(u[k] * T.n_tr))
            except Exception as e:
                raise Violation(f"earlier-call-failed:{b}", f"{b} on the converter object: {type(e).__name__}: {e}")
        if n_reads:
            fu, fk, ff = case["fault"]
            backend.arm({1 + min(n_reads - 1, int(fu * n_reads)): (("short", ff) if fk == "short" else fk)})
        try:
            with env.quiet():
                c.convert_to_adv_sgz(out)
        except Exception as e:
            exc = e
        if n_reads:
            faulted = any(e_[2] != e_[1] for e_ in backend.log)
    finally:
        c.close()
        if backend is not None:
            backend.close()
        for f in opened:
            f.close()
    if faulted and exc is not None:
        # a failed range read was reported: that is one of the two correct outcomes
        return {"sig": ["fault-reported", form, case["fault"][1], bool(case.get("preload"))], "labels": ["fault-reported", form]}
    if case.get("unsupported"):
        if exc is None:
            raise Violation("unsupported-input-not-refused", f"{files.describe(case['file'])}")
        if sentinel is not None:
            if not os.path.exists(out) or open(out, "rb").read() != sentinel:
                raise Violation("refusal-touched-existing-output", f"{files.describe(case['file'])}: the file already at the output path was changed")
        elif os.path.exists(out):
            raise Violation("refusal-left-output", f"{files.describe(case['file'])}: {os.path.getsize(out)} bytes left behind")
        return {"sig": ["unsupported", case["file"]["rate"], case["file"]["blockshape"]], "labels": ["unsupported"]}
    if exc is not None:
        raise Violation(f"reblock-failed:{type(exc).__name__}", f"{files.describe(case['file'])}: {exc}")
    src = source_stage(T)
    want = stages.reblock_stage(src)
    want.segy_header = T.raw[4096:4096 + 3600]
    stages.check_file(out, want, "reblocked")
    from seismic_zfp.read import SgzReader
    with SgzReader(out) as r:
        for f in T.owners:
            a = np.asarray(r.get_tracefield_values(f))
            e = np.asarray(T.cols[f]).reshape(T.n_il, T.n_xl)
            if a.shape != e.shape or not np.array_equal(a, e):
                raise Violation("reblocked-tracefield", f"field {f} differs from the source's array")
        # the z-slice path the layout exists for
        for z in sorted({0, T.n_s - 1, T.n_s // 2}):
            got = r.read_zslice(z)
            if not np.array_equal(got.view(np.uint32), np.ascontiguousarray(T.V[:, :, z]).view(np.uint32)):
                raise Violation("reblocked-zslice", f"z-slice {z} differs from the source's")
    n_il, n_xl, ns = case["file"]["shape"]
    stride_odd = (4 * n_il * n_xl) % 512 != 0
    nontriv = n_il > 64 or n_xl > 64 or n_il % 4 or n_xl % 4 or ns % 4 or (len(T.owners) >= 2 and stride_odd)
    return {"sig": [cls64(n_il), cls64(n_xl), ns > 1024, ns % 4, len(T.owners), stride_odd, T.structured,
                    case["file"]["version"]] if nontriv else None,
            "labels": ["irregular" if not T.structured else "regular", "z>1024" if ns > 1024 else "z<=1024", "src:" + form,
                       f"il:{cls64(n_il)[0]}", f"xl:{cls64(n_xl)[0]}"] + (["preload"] if case.get("preload") else [])
            + (["fault-absorbed"] if faulted else [])
            + ["before:" + b for b in case.get("before", [])]}


# a source whose data section is 17 MiB (260 x 256 traces of 8 samples at 2 bits: 4160 disk blocks)
BIG_FILE = {"kind": "spec", "family": "4x4", "rate": 2, "blockshape": [4, 4, 1024], "shape": [260, 256, 8], "version": "0.2.8",
            "values": {"kind": "gauss", "vseed": 51}, "il": [1, 1], "xl": [1, 1], "z0": 0, "dz_us": 4000, "arrays": [189, 193], "dups": [], "pad_last": True}


def shard_main(ctx):
    if ctx.shard in (14, 15):
        case = {"file": BIG_FILE, "preload": ctx.shard == 15, "before": [], "u": [0.5, 0.5, 0.5], "src_form": "str" if ctx.shard == 14 else "fileobj"}
        try:
            ctx.evaluate(case, run_case)
        except Violation as v:
            ctx.failures.append({"kind": v.kind, "detail": v.detail, "case": case})
            return
    if not ctx.explore("reblock", cases(), run_case, ctx.n(25, 400)):
        return
    ctx.explore("unsupported", unsupported_cases(), run_case, ctx.n(8, 80))


def replay(case, ctx):
    run_case(case, ctx)

"""C16 writer pipeline: output independent of thread interleaving; always completes."""
import builtins
import hashlib
import os
import numpy as np
from hypothesis import strategies as st

from .. import conv, env, gen, sgy, sched
from ..core import Violation, library_exception

META = {
    "level": "exploration",
    "rule": ("the harness owns the schedule: conversion_utils.Queue / Thread and the output file are replaced by "
             "scheduler-controlled versions, exactly one thread runs at a time, and every put/get/task_done/join, thread "
             "start, write and flush is a scheduling point where the next thread is drawn among those whose pending "
             "operation is enabled; case = schedule (list of drawn choices) x queue capacity {1, 2, 16} x route {NumPy, "
             "SEG-Y 3D, SEG-Y 2D, irregular SEG-Y} x 1..3 plane sets x layout {whole plane set, per block}; oracle: no deadlock (the "
             "enabled set is never empty before the call returns), bounded number of scheduling points, final bytes == "
             "those of an unscheduled run, write log = header first, then every block exactly once at contiguous "
             "increasing offsets by the writer thread, then footer/patches by the calling thread, and no thread has an "
             "enabled pending operation once the call has returned; NumPy cubes may hold a dead (all-zero) plane set, pairs of "
             "configurations share the plane-set buffer shape at different rates, and for those the sequential file made "
             "in the exploring process is compared with the one a fresh interpreter makes from the same call; the thorough tier also enumerates ALL schedules "
             "(depth-first over the choice tree) of the smallest configuration; non-trivial = producer ran >= 2 items "
             "ahead, or a queue became full, or more than one block; distinct = hash of the (thread, operation) sequence"),
    "assumptions": [
        "granularity: queue operations, thread start, file writes/flushes (what the property names); preemption inside zfpy.compress_numpy or inside a queue operation is not modelled",
        "termination = deadlock-freedom + bounded steps, since all waiting is on queue operations the scheduler models",
        "reference bytes = the strictly sequential execution (scheduler policy 'downstream first', capacity 1), which must also equal an unscheduled run with real threads",
        "a wait with a timeout may expire whenever the waiting thread is scheduled while the wait cannot be satisfied (at most 3 expiries per run)",
    ],
}

_ref_cache = {}


def conversion(case, d):
    """Returns a thunk running the conversion to path `out` and the output path."""
    out = os.path.join(d, "o.sgz")
    rate, bs = case["setting"][0], tuple(case["setting"][1])
    if case["route"] == "numpy":
        # (the reference is always made from the C-contiguous array; the run under test may get the same values
        # as a Fortran-ordered array, a window into a larger one, every other sample of a longer one)
        data = gen.make_values(tuple(case["shape"]), "gauss", 5)
        if case.get("nonfinite"):
            # samples outside the finite range (what segyio hands over for IBM values beyond float32): nothing is claimed
            # about their coded values, only that the pipeline still terminates with the sequential file
            data = data.copy()
            data[0, 0, 0], data[-1, -1, -1], data[1, 1, 1] = np.inf, -np.inf, np.nan
        if case.get("dead") and data.shape[0] > bs[0]:
            # a dead plane set (all samples zero), as in a padded survey
            data = data.copy()
            data[bs[0]:2 * bs[0]] = 0
        data = gen.as_layout(data, case.get("mem"))
        return (lambda: conv.numpy_convert(data, out, rate, bs)), out
    key = (case["route"], tuple(case["shape"]))
    path = os.path.join(d, f"in_{case['route']}_{'_'.join(map(str, case['shape']))}.sgy")
    if not os.path.exists(path):
        if case["route"] == "irregular":
            # a survey with holes (inferred geometry): every second trace of the second inline and the last trace missing
            n_il, n_xl, ns = case["shape"]
            data = gen.make_values((n_il, n_xl, ns), "gauss", 8)
            keep = [g for g in range(n_il * n_xl) if not (g // n_xl == 1 and g % 2 == 1) and g != n_il * n_xl - 1]
            cols = sgy.base_cols(len(keep), ns, 4000, 0)
            cols[sgy.IL] = np.array([10 + 2 * (g // n_xl) for g in keep])
            cols[sgy.XL] = np.array([20 + (g % n_xl) for g in keep])
            sgy.write_segy(path, data.reshape(-1, ns)[keep], cols, 4000, fmt=5)
        elif case["route"] == "2d":
            n, ns = case["shape"]
            data = gen.make_values((n, ns), "gauss", 6)
            sgy.write_segy(path, data, sgy.base_cols(n, ns, 4000, 0), 4000, fmt=5)
        else:
            n_il, n_xl, ns = case["shape"]
            data = gen.make_values((n_il, n_xl, ns), "gauss", 7)
            cols = sgy.base_cols(n_il * n_xl, ns, 4000, 0)
            il, xl = list(range(1, n_il + 1)), list(range(1, n_xl + 1))
            cols.update(sgy.regular_cols(il, xl))
            sgy.write_segy(path, data.reshape(-1, ns), cols, 4000, fmt=5, grid=(il, xl))
    # SEG-Y routes: the capacity is also set the way a caller gets it (converter.mem_limit -> check_memory ->
    # queue_size), so that whatever the pipeline decides from its queue size is decided as in a real run
    return (lambda: conv.segy_convert(path, out, rate, bs, header_detection=case.get("mode", "heuristic"),
                                      queue=case.get("cap"))), out


def scheduled(case, d, choices, policy="choices"):
    """Run the conversion under the controlled scheduler.  Returns (Sched, write log, output bytes or None, error)."""
    import seismic_zfp.conversion_utils as cu
    import seismic_zfp.conversion as C
    S = sched.Sched(choices, max_steps=20000, policy=policy)
    SThread, SQueue = sched.make_patches(S, capacity=case["cap"])
    log = []
    queues = []
    real_open = builtins.open

    class Q(SQueue):
        def __init__(self, *a, **k):
            super().__init__(*a, **k)
            queues.append(self)

    def sopen(path, mode="r", *a, **k):
        f = real_open(path, mode, *a, **k)
        if "w" in mode or "+" in mode:
            return sched.SFile(S, f, log)
        return f
    thunk, out = conversion(case, d)
    if os.path.exists(out):
        os.remove(out)
    oq, ot = cu.Queue, cu.Thread
    cu.Queue, cu.Thread = Q, SThread
    C.open = sopen
    err = None
    try:
        try:
            thunk()
        except (sched.Deadlock, sched.TooManySteps) as e:
            err = e
        S.returned = True
        leftover = S.others_pending_enabled()
    finally:
        cu.Queue, cu.Thread = oq, ot
        del C.open
        S.finish()
    data = conv.read_bytes(out) if os.path.exists(out) else None
    return S, log, data, err, leftover, queues


def reference(case, d):
    """The file a strictly sequential execution produces: the same conversion under the scheduler with the
    'downstream first' policy (every item is compressed and written before the next one is produced), checked
    against an unscheduled run with real threads."""
    key = repr((case["route"], case["shape"], case["setting"], case.get("mode"), bool(case.get("nonfinite")), bool(case.get("dead"))))
    if key not in _ref_cache:
        case = dict(case, mem=None)
        S, log, data, err, leftover, queues = scheduled(dict(case, cap=1), d, [], policy="downstream")
        if err is not None or data is None:
            raise Violation("sequential-execution-fails", f"{case['route']} {case['shape']} {case['setting']}: {err!r}"
                            + (f"; a worker thread died: {S.thread_errors[:2]}" if S.thread_errors else ""))
        if max((q.max_len for q in queues), default=0) > 1:
            raise RuntimeError("harness: the 'downstream first' execution let an item wait behind another")
        thunk, out = conversion(case, d)
        thunk()
        if conv.read_bytes(out) != data:
            raise Violation("unscheduled-run-differs-from-sequential",
                            f"{case['route']} {case['shape']} {case['setting']}: a run with real threads does not produce the sequential file")
        if case["route"] == "numpy" and case.get("dead"):
            fresh = fresh_process_file(case, d)
            if fresh != data:
                raise Violation("sequential-file-depends-on-process-history",
                                f"{case['route']} {case['shape']} {case['setting']}: the sequential file made in this process "
                                f"({len(data)} bytes), which has run other conversions before, differs from the one a fresh "
                                f"process makes from the same call ({len(fresh)} bytes)")
        _ref_cache[key] = data
    return _ref_cache[key]


def fresh_process_file(case, d):
    """State that is not in the arguments: the same conversion made by a fresh interpreter (nothing converted before)."""
    import json, subprocess, sys, tempfile, shutil
    fd = tempfile.mkdtemp(prefix="fresh_", dir=d)
    try:
        prog = ("import sys, json; sys.path[:0] = json.loads(sys.argv[1]); from vp.props import c16; "
                "thunk, out = c16.conversion(json.loads(sys.argv[2]), sys.argv[3]); thunk()")
        r = subprocess.run([sys.executable, "-c", prog, json.dumps([p for p in sys.path if p]), json.dumps(case), fd],
                           capture_output=True, text=True, timeout=600)
        if r.returncode != 0:
            raise RuntimeError("harness: fresh-process conversion failed: " + r.stderr[-400:])
        return conv.read_bytes(os.path.join(fd, "o.sgz"))
    finally:
        shutil.rmtree(fd, ignore_errors=True)


def check_schedule(case, ctx, d, choices):
    ref = reference(case, d)
    S, log, data, err, leftover, queues = scheduled(case, d, choices)
    what = f"{case['route']} shape {case['shape']} setting {case['setting']} capacity {case['cap']}, schedule {list(choices)[:40]}"
    if isinstance(err, sched.Deadlock):
        raise Violation("deadlock", f"{what}: no thread can move; pending {err}; last steps {S.trace[-6:]}"
                        + (f"; a worker thread died: {S.thread_errors[:2]}" if S.thread_errors else ""))
    if isinstance(err, sched.TooManySteps):
        raise Violation("does-not-terminate", f"{what}: {err}")
    if leftover:
        raise Violation("work-pending-after-return", f"{what}: after the call returned, {leftover} can still run")
    if data != ref:
        n = None if data is None else next((i for i in range(min(len(data), len(ref))) if data[i] != ref[i]), min(len(data), len(ref)))
        raise Violation("output-differs-from-sequential", f"{what}: {None if data is None else len(data)} vs {len(ref)} bytes, first difference at {n}")
    # write log: header, blocks in order exactly once, then calling-thread writes
    if not log or log[0][1] != 0 or log[0][2] != 8192:
        raise Violation("write-order", f"{what}: first write is {log[:1]}, expected the 8192-byte header at offset 0")
    writer = log[0][0]
    pos = 8192
    k = 1
    data_end = 8192 + 4096 * int.from_bytes(ref[56:60], "little")
    while k < len(log) and log[k][0] == writer:
        t, off, n, after = log[k]
        if off != pos:
            raise Violation("write-order", f"{what}: block write at offset {off}, expected {pos} (log {log[:k + 1][-4:]})")
        pos += n
        k += 1
    if pos != data_end:
        raise Violation("write-order", f"{what}: writer thread wrote up to {pos}, data section ends at {data_end}")
    for t, off, n, after in log[k:]:
        if t != "main":
            raise Violation("write-order", f"{what}: thread {t} wrote at {off} after the calling thread started the footer")
    if any(after for _, _, _, after in log):
        raise Violation("write-after-return", f"{what}: a write happened after the call returned")
    ahead = max((q.max_len for q in queues), default=0)
    full = any(q.maxsize > 0 and q.max_len >= q.maxsize for q in queues)
    nblocks = (data_end - 8192) // 4096
    h = hashlib.sha1(repr(S.trace).encode()).hexdigest()[:16]
    return {"sig": h if (ahead >= 2 or full or nblocks > 1) else None,
            "labels": [case["route"], f"cap={case['cap']}", "ahead>=2" if ahead >= 2 else "ahead<2", "queue-full" if full else "never-full",
                       f"points={min(len(S.trace) // 10 * 10, 200)}"], "branching": S.branching}


CONFIGS = {
    "numpy": [([4, 5, 9], [4, (4, 4, 512)]), ([7, 5, 9], [4, (4, 4, 512)]), ([11, 5, 9], [4, (4, 4, 512)]),
              ([5, 9, 70], [8, (8, 8, 64)]), ([17, 9, 70], [8, (8, 8, 64)]), ([9, 5, 600], [4, (4, 8, 256)]),
              ([17, 5, 9], [8, (8, 8, 64)]), ([33, 3, 12], [16, (16, 16, 8)]),
              # the same plane-set buffer shape as a configuration above, at another rate
              ([7, 5, 9], [2, (4, 8, 512)]), ([11, 5, 9], [2, (4, 8, 512)]), ([17, 9, 70], [4, (8, 8, 128)])],
    "segy": [([4, 5, 9], [4, (4, 4, 512)]), ([9, 5, 9], [4, (4, 4, 512)]), ([5, 9, 70], [8, (8, 8, 64)]),
             ([12, 3, 5], [4, (4, 4, 512)]),
             # more plane sets (19) than the largest queue holds (16)
             ([74, 3, 5], [4, (4, 4, 512)]),
             # one block per plane set (n_xl <= blockshape[1], n_samples <= blockshape[2]) in layouts other than 4x4
             ([17, 5, 9], [8, (8, 8, 64)]), ([9, 7, 60], [4, (4, 8, 256)]), ([33, 3, 12], [16, (16, 16, 8)])],
    "irregular": [([9, 5, 9], [4, (4, 4, 512)]), ([17, 5, 9], [8, (8, 8, 64)]), ([6, 7, 30], [16, (4, 8, 64)])],
    "2d": [([9, 20], [4, (1, 4, 2048)]), ([5, 20], [4, (1, 16, 512)]), ([37, 600], [4, (1, 16, 512)]),
           ([11, 2100], [8, (1, 4, 1024)])],
}


@st.composite
def cases(draw):
    route = draw(st.sampled_from(["numpy", "numpy", "segy", "2d", "irregular"]))
    shape, setting = draw(st.sampled_from(CONFIGS[route]))
    return {"route": route, "shape": list(shape), "setting": [setting[0], list(setting[1])],
            "cap": draw(st.sampled_from([1, 2, 16])), "mode": draw(st.sampled_from(["heuristic", "thorough", "strip"])),
            "choices": draw(st.lists(st.integers(0, 2), min_size=0, max_size=120)),
            **({"mem": draw(st.sampled_from(gen.MEM_LAYOUTS)), "nonfinite": draw(st.integers(0, 5)) == 0,
                "dead": draw(st.integers(0, 3)) == 0} if route == "numpy" else {})}


def run_case(case, ctx):
    d = os.path.join(ctx.work, "c16")
    os.makedirs(d, exist_ok=True)
    res = check_schedule(case, ctx, d, case["choices"])
    res.pop("branching", None)
    return res


def enumerate_all(ctx, case, limit):
    """Depth-first enumeration of every schedule of one configuration (stateless model checking)."""
    d = os.path.join(ctx.work, "c16")
    os.makedirs(d, exist_ok=True)
    stack = [[]]
    n = 0
    complete = True
    while stack:
        prefix = stack.pop()
        c = dict(case, choices=prefix)
        ctx.mark_current(c)
        try:
            res = check_schedule(c, ctx, d, prefix)
        except Violation as v:
            ctx.fail(c, v)
            return n, False
        n += 1
        br = res["branching"]
        if res["sig"]:
            ctx.sigs.add(res["sig"])
        # children: at every point beyond the prefix where more than one thread was runnable, the alternatives
        for i in range(len(prefix), len(br)):
            for alt in range(1, br[i]):
                stack.append(prefix + [0] * (i - len(prefix)) + [alt])
        if n >= limit:
            complete = not stack
            break
    ctx.evaluations += n
    return n, complete


def shard_main(ctx):
    if ctx.tier == "thorough":
        smallest = [{"check": "enum", "route": "numpy", "shape": [4, 5, 9], "setting": [4, [4, 4, 512]], "cap": 1, "mode": "heuristic"},
                    {"check": "enum", "route": "2d", "shape": [5, 20], "setting": [4, [1, 16, 512]], "cap": 1, "mode": "strip"},
                    {"check": "enum", "route": "numpy", "shape": [7, 5, 9], "setting": [4, [4, 4, 512]], "cap": 1, "mode": "heuristic"},
                    {"check": "enum", "route": "numpy", "shape": [4, 5, 9], "setting": [4, [4, 4, 512]], "cap": 2, "mode": "heuristic"}]
        if ctx.shard < len(smallest):
            n, complete = enumerate_all(ctx, smallest[ctx.shard], 200000)
            ctx.extra[f"schedules_enumerated_config{ctx.shard}"] = n
            ctx.extra[f"enumeration_complete_config{ctx.shard}"] = bool(complete)
            if ctx.failures:
                return
    elif ctx.shard == 0:
        n, complete = enumerate_all(ctx, {"check": "enum", "route": "numpy", "shape": [4, 5, 9], "setting": [4, [4, 4, 512]],
                                          "cap": 1, "mode": "heuristic"}, 3000)
        ctx.extra["schedules_enumerated_smallest"] = n
        ctx.extra["enumeration_complete_smallest"] = bool(complete)
        if ctx.failures:
            return
    ctx.explore("schedules", cases(), run_case, ctx.n(600, 8000))


def replay(case, ctx):
    run_case(case, ctx)

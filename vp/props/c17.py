"""C17 I/O failures are reported, never turned into samples."""
import json
import os
import numpy as np
from hypothesis import strategies as st

from .. import codec, files, iomodel, ops
from ..core import Violation

META = {
    "level": "fault_enumeration",
    "rule": ("case = spec-written file (all layouts, regular / irregular / 2D) x read method x backend {local file "
             "object, blob stand-in with 20 workers} x fault plan: the fault-free sequence of range reads of the call is "
             "recorded first, then 1-2 faults are placed at drawn positions of that sequence (constructed, so every "
             "position is real) with kind in {exception, short read (prefix), empty read}; for the blob backend the "
             "harness also owns the completion order of the concurrent range reads (drawn ranks; a request completes "
             "only when it has the lowest rank among all requests that can be outstanding); oracle: the call raises, "
             "or returns exactly the truth (spec-only decode), and 0-3 further calls made on the same reader afterwards with "
             "no fault armed (the same call, the neighbouring item whose reads start where the failed one ended, any other "
             "call) return exactly the truth; the quick tier additionally enumerates every position "
             "x every kind for one call per method on two fixed files; non-trivial = fault hits a read issued from a "
             "pool worker, or position > 1, or a non-submission completion order; distinct = (method, backend, kind, "
             "position class, layout)"),
    "assumptions": [
        "faults are injected at the storage stand-in (file object read / blob download_blob().readall()); Azure itself is not contacted",
        "a fault that is not reached (position beyond what the faulty run issues) is counted separately, not as a pass of the oracle",
        "completion orders are sampled (drawn ranks), serialised one completion at a time",
    ],
}

_cache = {}
KINDS = ["exception", "empty", "short", "exception-service", "exception-plain"]


def get_file(desc, ctx):
    key = json.dumps(desc, sort_keys=True)
    if key not in _cache:
        if len(_cache) > 3:
            for k in list(_cache)[:-1]:
                p = _cache.pop(k)[0]
                if os.path.exists(p):
                    os.remove(p)
        d = os.path.join(ctx.work, "files")
        os.makedirs(d, exist_ok=True)
        _cache[key] = files.build(desc, d, name=f"f{abs(hash(key)) % 10**10}.sgz")
    return _cache[key]


METHODS = sorted(set(ops.METHODS_3D_READER + ops.METHODS_2D_READER))


@st.composite
def cases(draw, two_d=False):
    desc = draw(files.spec_file_2d(max_voxels=60_000)) if two_d else \
        draw(files.spec_file_3d(max_voxels=120_000, versions=["0.2.8", "0.2.8", "0.2.1"]))
    nf = draw(st.sampled_from([1, 1, 1, 2]))
    after = [{"how": draw(st.sampled_from(["same", "next", "next", "prev", "other", "family"])), "step": draw(st.sampled_from([1, 4, 4, 8, 64])),
              "a": draw(ops.abstract_op(METHODS))} for _ in range(draw(st.sampled_from([0, 1, 1, 2, 3])))]
    a = draw(ops.abstract_op(METHODS))
    pre = None
    if draw(st.integers(0, 2)) == 0:
        # the same method on another item (or any other call) before the faulted one
        pre = dict(a, u=[draw(st.floats(0, 1, exclude_max=True)) for _ in range(8)]) if draw(st.booleans()) else draw(ops.abstract_op(METHODS))
    return {"file": desc, "a": a, "backend": draw(st.sampled_from(["local", "blob"])), "after": after, **({"pre": pre} if pre else {}),
            "faults": [[draw(st.floats(0, 1, exclude_max=True)), draw(st.sampled_from(KINDS)), draw(st.floats(0, 1, exclude_max=True))]
                       for _ in range(nf)],
            "ranks": draw(st.lists(st.integers(0, 20), min_size=0, max_size=20)),
            # the failing range read is the last of the call's concurrent reads to complete
            "fault_last": draw(st.integers(0, 3)) == 0,
            "multithreading": draw(st.booleans())}


def make_backend(case, path, total=0):
    """(total: number of requests of the undisturbed run, for the completion-order controller)"""
    if case["backend"] == "local":
        return iomodel.CountingFile(path)
    last = bool(case.get("fault_last"))
    ctl = iomodel.CompletionController(case.get("ranks") or [], total) if (case.get("ranks") or last) else None
    return iomodel.CountingBlob(path, controller=ctl, fault_last=last)


def axis_len(T, m):
    if T.is_2d:
        return T.n_tr if m != "get_tracefield_values" else None
    if m in ("read_inline", "read_inline_number", "iline"):
        return T.n_il
    if m in ("read_crossline", "read_crossline_number", "xline"):
        return T.n_xl
    if m in ("read_zslice", "read_zslice_coord", "depth_slice"):
        return T.n_s
    if m in ("get_trace", "trace", "gen_trace_header", "gen_trace_header_all", "header", "get_trace_window", "get_trace_by_coord"):
        return T.n_tr
    return None


def followup_ops(T, op, after):
    """Calls made on the same reader after the faulted one, with no fault armed: the same call again, the
    neighbouring item (whose range reads start where the failed ones ended), or any other call."""
    out = []
    for f in after or []:
        if f["how"] == "same":
            out.append(dict(op))
            continue
        if f["how"] == "family":
            # after a header call, the other way of reading headers (whole arrays <-> one trace's header); after a
            # sample call, a header call
            if op["m"] in ("gen_trace_header", "gen_trace_header_all") and T.owners:
                out.append({"m": "get_tracefield_values", "a": [T.owners[int(f["step"]) % len(T.owners)]]})
            else:
                out.append({"m": "gen_trace_header", "a": [int(f["step"]) % T.n_tr]})
            continue
        n = axis_len(T, op["m"])
        if f["how"] in ("next", "prev") and n and op["m"] != "read_subplane" and len(op["a"]) >= 1:
            o2 = json.loads(json.dumps(op))
            o2["a"][0] = (op["a"][0] + (f["step"] if f["how"] == "next" else -f["step"])) % n
            out.append(o2)
            continue
        o2 = ops.concretise(T, f["a"])
        if o2 is not None and o2["m"] in ops.methods_for(T, reader_only=True):
            out.append(o2)
    return out


def attempt(case, path, T, op, plan, total, after=()):
    """Run op on a fresh reader under a fault plan, then the follow-up ops on the same reader with the
    plan disarmed.  Returns (outcome, value, log, follow-up results)."""
    from seismic_zfp.read import SgzReader
    backend = make_backend(case, path, total)
    r = SgzReader(backend)
    H = ops.Handles(path, T, reader=r)
    if case.get("pre"):
        # an earlier, undisturbed call on the same reader (what it leaves in the reader's caches must not be
        # served in place of a later read that failed)
        p0 = ops.concretise(T, case["pre"])
        if p0 is not None and p0["m"] in ops.methods_for(T, reader_only=True):
            try:
                ops.perform(H, p0)
            except Exception as e:
                raise Violation(f"exception:{p0['m']}", f"undisturbed earlier call {p0}: {type(e).__name__}: {e}")
    backend.arm(dict(plan) if plan else None)
    try:
        try:
            if op["m"] == "read_subvolume" and not case.get("multithreading", True):
                got = r.read_subvolume(*op["a"], multithreading=False)
            else:
                got = ops.perform(H, op)
            outcome = "ok"
        except Exception as e:
            outcome, got = "exc", e
        log = list(backend.log)
        later = []
        if after:
            backend.arm(None)
            for o2 in after:
                try:
                    later.append((o2, "ok", ops.perform(H, o2)))
                except Exception as e:
                    later.append((o2, "exc", e))
        attempt.later = later
        return outcome, got, log
    finally:
        try:
            r.close()
        except Exception:
            pass
        backend.close()


def run_plan(case, ctx, path, T, op, positions_kinds, L):
    plan = {}
    for idx, kind, frac in positions_kinds:
        off, req = L[idx]
        plan[(off, req)] = ("short", frac) if kind == "short" else kind
    case = dict(case)
    outcome, got, log = attempt(case, path, T, op, plan, len(L), after=followup_ops(T, op, case.get("after")))
    injected = [e for e in log if e[2] != e[1]]
    if not injected:
        return "not-reached"
    # calls made afterwards on the same reader meet no failing read: they return the true data
    for o2, oc, g2 in attempt.later:
        if oc == "exc":
            raise Violation(f"call-after-fault-raised:{o2['m']}",
                            f"{case['backend']} backend: after a faulted {op} ({[(L[i], k) for i, k, _ in positions_kinds]}), the "
                            f"fault-free call {o2} on the same reader raised {type(g2).__name__}: {g2}")
        k2, w2 = ops.expected(T, o2)
        try:
            ops.compare(k2, g2, w2, o2)
        except Violation as v:
            raise Violation(f"call-after-fault-wrong:{o2['m']}",
                            f"{case['backend']} backend: after a faulted {op} ({[(L[i], k) for i, k, _ in positions_kinds]}), the "
                            f"fault-free call {o2} on the same reader returned a wrong result ({v.detail[:200]})")
    if outcome == "exc":
        return "raised"
    kind, want = ops.expected(T, op)
    try:
        ops.compare(kind, got, want, op)
    except Violation as v:
        raise Violation(f"fault-turned-into-data:{op['m']}:{positions_kinds[0][1]}",
                        f"{case['backend']} backend, {op}: fault(s) {[(L[i], k) for i, k, _ in positions_kinds]} of {len(L)} reads "
                        f"-> call returned normally with wrong result ({v.detail[:200]})")
    return "true-data"


def run_case(case, ctx):
    if case.get("check") == "undisturbed":
        return run_undisturbed(case, ctx)
    if "then" in case and "a" not in case:
        return run_open_case(case, ctx)
    path, T = get_file(case["file"], ctx)
    op = ops.concretise(T, case["a"])
    if op is None or op["m"] not in ops.methods_for(T, reader_only=True):
        return {"sig": None, "labels": ["method-not-applicable"]}
    outcome, got, L0 = attempt(dict(case, ranks=[], fault_last=False), path, T, op, None, 0)
    if outcome != "ok":
        raise Violation(f"exception:{op['m']}", f"fault-free run failed: {got!r}")
    kind, want = ops.expected(T, op)
    ops.compare(kind, got, want, op)
    L = [(o, q) for o, q, r_ in L0]
    if not L:
        return {"sig": None, "labels": ["no-io"]}
    pk = [(min(len(L) - 1, int(u * len(L))), kind_, frac) for u, kind_, frac in case["faults"]]
    res = run_plan(case, ctx, path, T, op, pk, L)
    fam = case["file"]["family"] if (T.is_2d or T.structured) else "irregular"
    pos = "first" if pk[0][0] == 0 else ("last" if pk[0][0] == len(L) - 1 else "middle")
    nontriv = pk[0][0] > 0 or len(L) > 1 or bool(case.get("ranks"))
    order = "fault-last" if (case.get("fault_last") and case["backend"] == "blob") else bool(case.get("ranks"))
    hows = sorted({f["how"] for f in case.get("after") or []})
    return {"sig": [op["m"], case["backend"], pk[0][1], pos, fam, len(pk), order, hows] if (nontriv and res != "not-reached") else None,
            "labels": [res, op["m"], case["backend"], pk[0][1]] + ["after:" + h for h in hows] + (["with-earlier-call"] if case.get("pre") else [])}


# ---- faults while the reader is being opened (header blocks; with preload the whole data section) -------
@st.composite
def open_cases(draw, two_d=False):
    desc = draw(files.spec_file_2d(max_voxels=60_000)) if two_d else \
        draw(files.spec_file_3d(max_voxels=120_000, versions=["0.2.8", "0.2.8", "0.2.1"]))
    return {"file": desc, "backend": draw(st.sampled_from(["local", "blob"])), "preload": draw(st.sampled_from([True, True, False])),
            "fault": [draw(st.floats(0, 1, exclude_max=True)), draw(st.sampled_from(KINDS)), draw(st.floats(0, 1, exclude_max=True))],
            "then": [draw(ops.abstract_op(METHODS)) for _ in range(draw(st.integers(1, 3)))], "ranks": []}


def run_open_case(case, ctx):
    from seismic_zfp.read import SgzReader
    path, T = get_file(case["file"], ctx)
    # the undisturbed open: which range reads does it make?
    b0 = make_backend(case, path)
    b0.arm(None)
    r0 = SgzReader(b0, preload=case["preload"])
    L = [(o, q) for o, q, _ in b0.log]
    r0.close()
    b0.close()
    if not L:
        return {"sig": None, "labels": ["open-without-io"]}
    u, kind, frac = case["fault"]
    idx = min(len(L) - 1, int(u * len(L)))
    backend = make_backend(case, path)
    backend.arm({L[idx]: ("short", frac) if kind == "short" else kind})
    try:
        try:
            r = SgzReader(backend, preload=case["preload"])
        except Exception:
            return {"sig": ["open", case["backend"], case["preload"], kind, idx == len(L) - 1, "raised"], "labels": ["open-raised", case["backend"], kind]}
        injected = [e for e in backend.log if e[2] != e[1]]
        backend.arm(None)
        H = ops.Handles(path, T, reader=r)
        try:
            for a in case["then"]:
                op = ops.concretise(T, a)
                if op is None or op["m"] not in ops.methods_for(T, reader_only=True):
                    continue
                try:
                    got = ops.perform(H, op)
                except Exception:
                    continue        # a reader that came out of a faulty open may refuse to serve; it may not invent
                k_, want = ops.expected(T, op)
                try:
                    ops.compare(k_, got, want, op)
                except Violation as v:
                    raise Violation(f"fault-at-open-turned-into-data:{op['m']}:{kind}",
                                    f"{case['backend']} backend, preload={case['preload']}: {kind} fault on read {L[idx]} (#{idx + 1} of {len(L)}) while opening; "
                                    f"the reader opened and {op} returned a wrong result ({v.detail[:160]})")
        finally:
            r.close()
    finally:
        backend.close()
    return {"sig": ["open", case["backend"], case["preload"], kind, idx == len(L) - 1, "opened"] if injected else None,
            "labels": ["open-survived" if injected else "open-fault-not-reached", case["backend"], kind]}


# ---- complete enumeration of positions x kinds for one call per method on fixed files -------------
FIXED = [
    {"kind": "spec", "family": "4x4", "rate": 4, "blockshape": [4, 4, 512], "shape": [9, 6, 20], "version": "0.2.8",
     "values": {"kind": "gauss", "vseed": 3}, "il": [1, 1], "xl": [1, 1], "arrays": [1, 189, 193], "dups": [[197, 189]]},
    {"kind": "spec", "family": "zs", "rate": 2, "blockshape": [64, 64, 4], "shape": [66, 5, 9], "version": "0.2.8",
     "values": {"kind": "gauss", "vseed": 4}, "il": [1, 1], "xl": [1, 1], "arrays": [189, 193]},
    {"kind": "spec", "family": "gen", "rate": 8, "blockshape": [8, 8, 64], "shape": [9, 9, 70], "version": "0.2.8",
     "values": {"kind": "gauss", "vseed": 5}, "il": [1, 1], "xl": [1, 1], "arrays": [189, 193]},
    {"kind": "spec", "family": "4x4", "rate": 8, "blockshape": [4, 4, 256], "shape": [6, 5, 9], "version": "0.2.8",
     "values": {"kind": "gauss", "vseed": 6}, "il": [1, 1], "xl": [1, 1], "arrays": [1, 189, 193], "holes": [3, 17]},
    {"kind": "spec", "family": "2d", "rate": 4, "blockshape": [1, 16, 512], "shape": [37, 600], "version": "0.2.8",
     "values": {"kind": "gauss", "vseed": 7}, "arrays": [1, 5]},
    {"kind": "spec", "family": "2d", "rate": 8, "blockshape": [1, 4, 1024], "shape": [9, 30], "version": "0.2.8",
     "values": {"kind": "gauss", "vseed": 8}, "arrays": [1]},
]


def enumerate_fixed(ctx):
    items = []
    for fk, desc in enumerate(FIXED):
        for m in METHODS:
            for backend in ("local", "blob"):
                items.append((fk, m, backend))
    n = 0
    for fk, m, backend in items[ctx.shard::ctx.nshards]:
        path, T = get_file(FIXED[fk], ctx)
        a = {"m": m, "u": [0.55, 0.3, 0.6, 0.2, 0.5, 0.4, 0.1, 0.9], "b": [True, False, True, False, True, False, False, False],
             "k": [0, 0, 0, 0]}
        op = ops.concretise(T, a)
        if op is None or op["m"] not in ops.methods_for(T, reader_only=True):
            continue
        case = {"check": "enum", "file": FIXED[fk], "a": a, "backend": backend, "ranks": [], "multithreading": True,
                "after": [{"how": "next", "step": 4, "a": a}, {"how": "family", "step": 5, "a": a}, {"how": "same", "step": 1, "a": a}]}
        outcome, got, L0 = attempt(case, path, T, op, None, 0)
        if outcome != "ok":
            ctx.fail(case, Violation(f"exception:{m}", repr(got)))
            return
        L = [(o, q) for o, q, r_ in L0]
        for idx in range(len(L)):
            if len(L) > 40 and idx not in (0, 1, len(L) // 2, len(L) - 2, len(L) - 1) and idx % 7:
                continue
            for kind in KINDS:
                c = dict(case, faults=[[idx / len(L) + 1e-9, kind, 0.5]])
                ctx.mark_current(c)
                try:
                    res = run_plan(c, ctx, path, T, op, [(idx, kind, 0.5)], L)
                except Violation as v:
                    ctx.fail(c, v)
                    return
                n += 1
                ctx.labels[res] += 1
                ctx.sigs.add(f"enum:{fk}:{m}:{backend}:{kind}:{'first' if idx == 0 else 'last' if idx == len(L) - 1 else 'mid'}")
    ctx.evaluations += n
    ctx.extra["enumerated_fault_points"] = n


# ---- no read fails: "returns the true data regardless of the order and timing in which parallel range reads complete" ---
PLAIN_FILE = {"kind": "spec", "family": "4x4", "rate": 8, "blockshape": [4, 4, 256], "shape": [21, 26, 40], "version": "0.2.8",
              "values": {"kind": "gauss", "vseed": 23}, "il": [1, 1], "xl": [1, 1], "z0": 0, "dz_us": 4000, "arrays": [189, 193]}


@st.composite
def undisturbed_cases(draw):
    """Calls that split into several range reads (crosslines and z-slices of a cube with 42 block columns), made
    repeatedly through a reader that was given the file in one of the forms a caller may use; nothing is injected."""
    return {"check": "undisturbed", "form": draw(st.sampled_from(["str", "path", "bytes", "fileobj", "raw", "blob"])),
            "calls": [[draw(st.sampled_from(["read_crossline", "read_zslice", "read_crossline", "read_inline", "read_subvolume"])),
                       draw(st.floats(0, 1, exclude_max=True))] for _ in range(draw(st.integers(6, 14)))]}


def run_undisturbed(case, ctx):
    from seismic_zfp.read import SgzReader
    path, T = get_file(PLAIN_FILE, ctx)
    opened = []
    form = case["form"]
    if form == "blob":
        arg = iomodel.CountingBlob(path)
    elif form == "raw":
        arg = open(path, "rb", buffering=0)
        opened.append(arg)
    else:
        arg = ops.in_form(path, form, opened)
    r = SgzReader(arg)
    try:
        for m, u in case["calls"]:
            if m == "read_crossline":
                x = int(u * T.n_xl)
                got, want, what = r.read_crossline(x), T.V[:, x], f"read_crossline({x})"
            elif m == "read_zslice":
                z = int(u * T.n_s)
                got, want, what = r.read_zslice(z), T.V[:, :, z], f"read_zslice({z})"
            elif m == "read_inline":
                i = int(u * T.n_il)
                got, want, what = r.read_inline(i), T.V[i], f"read_inline({i})"
            else:
                i = int(u * (T.n_il - 5))
                got, want, what = r.read_subvolume(i, i + 5, 3, 22, 1, 30), T.V[i:i + 5, 3:22, 1:30], f"read_subvolume({i}, {i + 5}, 3, 22, 1, 30)"
            if got.shape != want.shape or not codec.bits_equal(np.asarray(got, dtype=np.float32), want):
                raise Violation(f"undisturbed-read-wrong:{m}", f"file given as {form}, no read failed: {what} differs from the true data")
    except Violation:
        raise
    except Exception as e:
        raise Violation(f"undisturbed-read-raised:{type(e).__name__}", f"file given as {form}, nothing injected: {type(e).__name__}: {e}")
    finally:
        try:
            r.close()
        except Exception:
            pass
        for f in opened:
            f.close()
    return {"sig": ["undisturbed", form, sorted({m for m, _ in case["calls"]})], "labels": ["undisturbed", "form:" + form]}


def shard_main(ctx):
    enumerate_fixed(ctx)
    if ctx.failures:
        return
    if ctx.shard in (2, 3, 4, 5):
        # one call that issues more than 4096 range reads (z-slice of a 260 x 261 cube), the failing one early or in the
        # middle of them: whatever batching the reader applies, the failure must surface
        from .c07 import BIG_FILE
        case = {"file": BIG_FILE, "a": {"m": "read_zslice", "u": [0.5] * 8, "b": [False] * 8, "k": [0] * 4},
                "backend": "local" if ctx.shard % 2 == 0 else "blob", "after": [], "ranks": [], "multithreading": True,
                "faults": [[0.12 if ctx.shard < 4 else 0.55, "short" if ctx.shard < 4 else "exception", 0.5]]}
        try:
            ctx.evaluate(case, run_case)
        except Violation as v:
            ctx.failures.append({"kind": v.kind, "detail": v.detail, "case": case})
            return
    if not ctx.explore("undisturbed", undisturbed_cases(), run_case, ctx.n(12, 120)):
        return
    if not ctx.explore("faults3d", cases(), run_case, ctx.n(250, 3000)):
        return
    if not ctx.explore("faults2d", cases(two_d=True), run_case, ctx.n(80, 800)):
        return
    if not ctx.explore("open3d", open_cases(), run_case, ctx.n(60, 600)):
        return
    ctx.explore("open2d", open_cases(two_d=True), run_case, ctx.n(20, 200))


def replay(case, ctx):
    if case.get("check") == "enum":
        path, T = get_file(case["file"], ctx)
        op = ops.concretise(T, case["a"])
        outcome, got, L0 = attempt(case, path, T, op, None, 0)
        L = [(o, q) for o, q, r_ in L0]
        u, kind, frac = case["faults"][0]
        run_plan(case, ctx, path, T, op, [(min(len(L) - 1, int(u * len(L))), kind, frac)], L)
    else:
        run_case(case, ctx)

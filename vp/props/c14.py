"""C14 bounds safety: no read returns data that is not a stored real sample or header."""
import json
import os
import numpy as np
from hypothesis import strategies as st

from .. import codec, files, ops
from ..core import Violation

META = {
    "level": "exploration",
    "rule": ("case = file (3D regular in the three layout families, irregular, 2D; dims chosen so that padded > real on "
             "the axes) x public read method x argument tuple with exactly one component forced out of range, drawn from "
             "{-1, -n, -n-1, far negative, n, n+1, last padded index, padded size, far positive, empty range, reversed "
             "range, coordinate between axis values / far outside / exactly one step before the first or after the last label, with labels up to 1e7 and the int32 end}; outcome must be IndexError (or the dimensionality error "
             "for a 2D/3D mismatch), or for a negative ordinal exactly the real item Python indexing denotes; anything "
             "else is classified returned-data or wrong-exception; one case in two makes valid reads of the last and / or "
             "first real items through the same reader just before the call under test; non-trivial = offending component in the "
             "padded-but-not-real zone or a negative ordinal; distinct = (file kind, method, position of the bad "
             "component, class)"),
    "assumptions": [
        "for an empty or reversed range an empty result (size 0) is accepted as well as IndexError: it fabricates no sample",
        "a negative sample-window bound may either raise IndexError or behave exactly like Python slicing of the real trace",
        "truth for 'the real item' = the harness's spec-only decode of the file",
    ],
}

_cache = {}


def get_file(desc, ctx):
    key = json.dumps(desc, sort_keys=True)
    if key not in _cache:
        if len(_cache) > 3:
            for k in list(_cache)[:-1]:
                p = _cache.pop(k)[0]
                if os.path.exists(p):
                    os.remove(p)
        d = os.path.join(ctx.work, "files")
        os.makedirs(d, exist_ok=True)
        _cache[key] = files.build(desc, d, name=f"f{abs(hash(key)) % 10**10}.sgz")
    return _cache[key]


BAD_ORD = ["-1", "-n", "-n-1", "farneg", "n", "n+1", "lastpad", "padsize", "farpos"]


_CV = [int]    # the integer type the out-of-range ordinals of the current case arrive in (case["argt"])


def bad_ordinal(cls, n, npad):
    return _CV[0]({"-1": -1, "-n": -n, "-n-1": -n - 1, "farneg": -10 * npad - 7, "n": n, "n+1": n + 1,
            "lastpad": max(n, npad - 1), "padsize": max(n, npad), "farpos": 10 * npad + 11}[cls])


BAD_RANGE = ["hi=n+1", "hi=pad", "hi=far", "lo=-1", "lo=n", "empty", "reversed", "lo=farneg", "both-beyond"]


def bad_range(cls, n, npad, u):
    lo = int(u * (n - 1))
    hi = min(n, lo + 2)
    return tuple(_CV[0](x) for x in {"hi=n+1": (lo, n + 1), "hi=pad": (lo, max(n + 1, npad)), "hi=far": (lo, 10 * npad + 3), "lo=-1": (-1, hi),
            "lo=n": (n, n + 1), "empty": (lo, lo), "reversed": (hi, lo), "lo=farneg": (-3 * npad - 1, hi),
            "both-beyond": (max(n, npad - 1), max(n, npad - 1) + 1)}[cls])


METHODS_3D = ["read_inline", "read_crossline", "read_zslice", "read_inline_number", "read_crossline_number",
              "read_zslice_coord", "read_subvolume", "get_trace", "get_trace_window", "get_trace_by_coord", "cdiag", "adiag",
              "cdiag_crop", "adiag_crop", "cdiag_win", "gen_trace_header", "iline", "xline", "depth_slice", "trace",
              "header", "subvolume_acc", "xarray", "get_trace_window_grid"]
METHODS_2D = ["get_trace", "get_trace_window", "read_subplane", "gen_trace_header", "trace", "header", "get_tracefield_2d"]


@st.composite
def cases(draw, ctx, two_d=False):
    if two_d:
        desc = draw(files.spec_file_2d(max_voxels=60_000))
    else:
        desc = draw(files.spec_file_3d(max_voxels=120_000, versions=["0.2.8", "0.2.8", "0.2.1", "0.1.7"]))
    m = draw(st.sampled_from(METHODS_2D if two_d else METHODS_3D))
    return {"file": desc, "m": m, "axis": draw(st.integers(0, 2)), "ord": draw(st.sampled_from(BAD_ORD)),
            "rng": draw(st.sampled_from(BAD_RANGE)), "u": [draw(st.floats(0, 1, exclude_max=True)) for _ in range(4)],
            "coord": draw(st.sampled_from(["between", "below", "above", "stop+1", "stop", "start-1", "zero"])),
            "argt": draw(st.sampled_from(ops.ARG_FLAVOURS)),
            "warm": draw(st.sampled_from([None, None, "last", "first", "both"]))}


def off_axis(ax, how):
    ax = np.asarray(ax, dtype=float)
    inc = ax[1] - ax[0] if len(ax) > 1 else 1.0
    lo, hi = min(ax[0], ax[-1]), max(ax[0], ax[-1])
    if how == "between" and abs(inc) >= 2:
        return ax[0] + np.sign(inc)
    if how == "between":
        return ax[0] + inc / 2.0
    if how == "zero" and not np.any(ax == 0):
        return 0.0      # the value 0 where the axis does not carry it (recording delay, depth datum, line numbering from 1000)
    if how in ("below", "zero"):
        return lo - 2 * abs(inc) - 1
    if how == "above":
        return hi + 2 * abs(inc) + 1
    if how == "stop":
        return ax[-1] + inc   # the stop value itself: the first label that is not on the axis
    if how == "start-1":
        return ax[0] - inc
    return ax[-1] + 2 * inc   # one step past the stop value


def classify(outcome, value, allowed_items, what, case):
    """allowed_items: list of arrays/dicts each of which is an acceptable *returned* value."""
    from seismic_zfp.utils import WrongDimensionalityError
    if outcome == "exc":
        if isinstance(value, (IndexError, WrongDimensionalityError)):
            return "IndexError"
        raise Violation(f"wrong-exception:{case['m']}:{type(value).__name__}", f"{what}: {type(value).__name__}: {value}")
    got = value
    if isinstance(got, dict) or hasattr(got, "keys"):
        g = {int(k): int(v) for k, v in dict(got).items()}
        for a in allowed_items:
            if isinstance(a, dict) and all(g.get(k) == v for k, v in a.items()):
                return "real-item"
        raise Violation(f"returned-data:{case['m']}", f"{what}: returned a header that is not the item Python indexing denotes")
    g = np.asarray(got)
    for a in allowed_items:
        if not isinstance(a, dict):
            a = np.asarray(a)
            if g.size == a.size and codec.bits_equal(g.astype(np.float32).reshape(-1), a.astype(np.float32).reshape(-1)):
                return "real-item" if a.size else "empty"
    raise Violation(f"returned-data:{case['m']}", f"{what}: returned an array of shape {g.shape} for an out-of-range request")


def warm_up(r, T, how):
    """State that is not in the arguments: valid reads made through the same reader just before the call under test
    (the last real item of each axis, next to the padding, and / or the first one).  What they leave in the reader
    (cached chunks, remembered groups) must not let the refused call through.  Their own results are C02's subject."""
    if not how:
        return
    for end in {"last": [-1], "first": [0], "both": [0, -1]}[how]:
        try:
            if T.is_2d:
                i = end % T.n_tr
                r.get_trace(i); r.gen_trace_header(i)
                r.read_subplane(max(0, i - 1), min(T.n_tr, i + 1), max(0, T.n_s - 2) if end else 0, T.n_s if end else min(2, T.n_s))
            else:
                i = end % r.tracecount
                r.get_trace(i); r.gen_trace_header(i)
                r.read_inline(end % T.n_il); r.read_crossline(end % T.n_xl); r.read_zslice(end % T.n_s)
                r.read_correlated_diagonal(0); r.read_anticorrelated_diagonal(0)
        except Exception:
            pass


def run_case(case, ctx):
    path, T = get_file(case["file"], ctx)
    m, u = case["m"], case["u"]
    _CV[0] = ops.ARG_TYPES[case.get("argt") or "int"]
    s = T.s
    H = ops.Handles(path, T)
    allowed = []
    empty_ok = False
    try:
        r = H.reader
        if T.is_2d:
            n, npad, ns, nspad = T.n_tr, s.padded[1], T.n_s, s.padded[2]
            if m in ("get_trace", "trace", "gen_trace_header", "header"):
                i = bad_ordinal(case["ord"], n, npad)
                if -n <= i < 0:
                    allowed = [T.trace(n + i)] if m in ("get_trace", "trace") else [T.header(n + i)]
                what = f"{m}({i}) on 2D file with {n} traces (padded {npad})"
                call = {"get_trace": lambda: r.get_trace(i), "trace": lambda: H.emu.trace[i],
                        "gen_trace_header": lambda: r.gen_trace_header(i), "header": lambda: H.emu.header[i]}[m]
            elif m == "get_trace_window":
                i = int(u[0] * n)
                a, b = bad_range(case["rng"], ns, nspad, u[1])
                if a < 0:
                    allowed = [T.trace(i)[a:b]]
                empty_ok = a >= b
                what = f"get_trace({i}, {a}, {b}) on 2D file with {ns} samples (padded {nspad})"
                call = lambda: r.get_trace(i, a, b)
            elif m == "read_subplane":
                box = [int(u[0] * (n - 1)), 0, int(u[1] * (ns - 1)), 0]
                box[1], box[3] = min(n, box[0] + 2), min(ns, box[2] + 2)
                ax = case["axis"] % 2
                lo, hi = bad_range(case["rng"], (n, ns)[ax], (npad, nspad)[ax], u[2])
                box[2 * ax], box[2 * ax + 1] = lo, hi
                empty_ok = lo >= hi
                what = f"read_subplane{tuple(box)} on {n} traces x {ns} samples (padded {npad} x {nspad})"
                call = lambda: r.read_subplane(*box)
            else:   # get_tracefield_2d: volume-style call on a 2D file
                what = "read_inline(0) on a 2D file"
                call = lambda: r.read_inline(0)
        else:
            n_il, n_xl, ns = T.n_il, T.n_xl, T.n_s
            P = s.padded
            dims, pads = (n_il, n_xl, ns), P
            if m in ("read_inline", "read_crossline", "read_zslice", "depth_slice"):
                ax = {"read_inline": 0, "read_crossline": 1, "read_zslice": 2, "depth_slice": 2}[m]
                i = bad_ordinal(case["ord"], dims[ax], pads[ax])
                if m == "depth_slice" and -ns <= i < 0:
                    allowed = [T.V[:, :, ns + i]]
                what = f"{m}({i}) with {dims[ax]} real, {pads[ax]} padded"
                call = {"read_inline": lambda: r.read_inline(i), "read_crossline": lambda: r.read_crossline(i),
                        "read_zslice": lambda: r.read_zslice(i), "depth_slice": lambda: H.emu.depth_slice[i]}[m]
            elif m in ("read_inline_number", "read_crossline_number", "read_zslice_coord", "iline", "xline"):
                ax = {"read_inline_number": 0, "iline": 0, "read_crossline_number": 1, "xline": 1, "read_zslice_coord": 2}[m]
                axis = [T.ilines, T.xlines, T.samples][ax]
                c = off_axis(axis, case["coord"])
                c = int(c) if ax < 2 and float(c).is_integer() else float(c)
                if c in list(axis):
                    return {"sig": None, "labels": ["coord-on-axis-skipped"]}
                what = f"{m}({c}) with axis {list(axis[:3])}..{axis[-1]}"
                call = {"read_inline_number": lambda: r.read_inline_number(c), "read_crossline_number": lambda: r.read_crossline_number(c),
                        "read_zslice_coord": lambda: r.read_zslice_coord(c), "iline": lambda: H.emu.iline[c],
                        "xline": lambda: H.emu.xline[c]}[m]
            elif m in ("read_subvolume", "subvolume_acc", "xarray"):
                box = []
                for k in range(3):
                    lo = int(u[k] * (dims[k] - 1))
                    box += [lo, min(dims[k], lo + 2)]
                ax = case["axis"]
                lo, hi = bad_range(case["rng"], dims[ax], pads[ax], u[3])
                box[2 * ax], box[2 * ax + 1] = lo, hi
                empty_ok = lo >= hi
                what = f"{m}{tuple(box)} with dims {dims} padded {tuple(pads)}"
                if m == "read_subvolume":
                    call = lambda: r.read_subvolume(*box)
                elif m == "xarray" and u[2] < 0.5:
                    # an integer indexer on one axis, through the DataArray and through the backend variable:
                    # out of range raises, a negative one in [-n, 0) is the item Python indexing denotes
                    n_ax = dims[ax]
                    i = bad_ordinal(case["ord"], n_ax, pads[ax])
                    idx = [slice(box[0], min(dims[0], box[0] + 2)), slice(box[2], min(dims[1], box[2] + 2)),
                           slice(box[4], min(dims[2], box[4] + 2))]
                    for k in range(3):
                        if k != ax:
                            lo_k = int(u[k] * (dims[k] - 1))
                            idx[k] = slice(lo_k, min(dims[k], lo_k + 2))
                    idx[ax] = i
                    empty_ok = False
                    if -n_ax <= i < 0:
                        sel = [idx[0], idx[1], idx[2]]
                        allowed = [T.V[tuple(sel)]]
                    level = "variable" if u[3] < 0.5 else "data"
                    what = f"xarray {level}[{idx}] with dims {dims}"
                    if level == "variable":
                        call = lambda: H.xr("data").data.variable[tuple(idx)].to_numpy()
                    else:
                        call = lambda: H.xr("data").data[tuple(idx)].values
                elif m == "xarray":
                    if lo < 0 or empty_ok:
                        return {"sig": None, "labels": ["xarray-python-semantics-skipped"]}
                    # numpy/xarray clip slices that run past the end: exercise an integer indexer instead
                    idx = [slice(box[0], box[1]), slice(box[2], box[3]), slice(box[4], box[5])]
                    idx[ax] = hi - 1
                    what = f"xarray data[{idx}] with dims {dims}"
                    call = lambda: H.xr("data").data[tuple(idx)].values
                else:
                    axes = [T.ilines, T.xlines, H.emu.subvolume.zslices_int]
                    z = T.samples
                    if not (np.all(z == np.round(z)) and len(z) > 1 and z[1] != z[0]):
                        return {"sig": None, "labels": ["subvolume-fractional-axis-skipped"]}
                    sl = []
                    for k in range(3):
                        axv = np.asarray(axes[k], dtype=np.int64)
                        inc = int(axv[1] - axv[0])
                        co = lambda i: int(axv[0] + inc * i)   # coordinate of ordinal i, extrapolated beyond the axis
                        sl.append(slice(co(box[2 * k]), co(box[2 * k + 1])))
                    call = lambda: H.emu.subvolume[sl[0], sl[1], sl[2]]
            elif m in ("get_trace", "trace", "gen_trace_header", "header"):
                n = T.n_tr
                npad = P[0] * P[1]
                i = bad_ordinal(case["ord"], n, npad)
                if case["ord"] == "lastpad" and not T.structured:
                    i = T.n_il * T.n_xl - 1 if T.n_il * T.n_xl - 1 >= n else i
                if -n <= i < 0:
                    allowed = [T.trace(n + i)] if m in ("get_trace", "trace") else [T.header(n + i)]
                what = f"{m}({i}) with {n} traces, grid {n_il}x{n_xl}, padded {P[0]}x{P[1]}"
                call = {"get_trace": lambda: r.get_trace(i), "trace": lambda: H.emu.trace[i],
                        "gen_trace_header": lambda: r.gen_trace_header(i), "header": lambda: H.emu.header[i]}[m]
            elif m in ("get_trace_window", "get_trace_by_coord", "cdiag_win", "get_trace_window_grid"):
                i = int(u[0] * T.n_tr)
                a, b = bad_range(case["rng"], ns, P[2], u[1])
                empty_ok = a >= b
                if m == "get_trace_window_grid":
                    # the public flag that addresses traces by grid position (what the diagonal readers use)
                    g = int(u[0] * n_il * n_xl)
                    if a < 0:
                        allowed = [T.V.reshape(-1, ns)[g][a:b]]
                    what = f"get_trace({g}, {a}, {b}, override_unstructured_mapping=True) with {ns} samples (padded {P[2]})"
                    call = lambda: r.get_trace(g, a, b, override_unstructured_mapping=True)
                elif m == "get_trace_window":
                    if a < 0:
                        allowed = [T.trace(i)[a:b]]
                    what = f"get_trace({i}, {a}, {b}) with {ns} samples (padded {P[2]})"
                    call = lambda: r.get_trace(i, a, b)
                elif m == "cdiag_win":
                    what = f"read_correlated_diagonal(0, min_sample_idx={a}, max_sample_idx={b}) with {ns} samples"
                    if a < 0:
                        allowed = [np.stack([T.V[p][a:b] for p in ops.cdiag_positions(0, n_il, n_xl)])]
                    call = lambda: r.read_correlated_diagonal(0, min_sample_idx=a, max_sample_idx=b)
                else:
                    z = T.samples
                    inc = z[1] - z[0]
                    ca = z[0] + inc * a
                    cb = z[0] + inc * b
                    if b == ns:
                        cb = z[0] + inc * (ns + 1)
                    if case["coord"] == "zero" and z[0] > 0:
                        # the coordinate 0 on an axis that starts later (recording delay): one bound is 0, the other
                        # a sample of the trace; 0 is neither on the axis nor its stop value
                        k = min(ns - 1, int(u[1] * ns))
                        ca, cb = (0.0, z[k]) if case["rng"] in BAD_RANGE[::2] else (z[k], 0.0)
                        if case.get("argt") == "intp":
                            ca, cb = (0, cb) if ca == 0 else (ca, 0)
                        empty_ok = False
                        allowed = []
                    what = f"get_trace_by_coord({i}, {ca}, {cb}) with samples {z[0]}..{z[-1]}"
                    call = lambda: r.get_trace_by_coord(i, ca, cb)
            elif m in ("cdiag", "adiag"):
                if m == "cdiag":
                    d = {"-1": -n_xl, "-n": -n_xl - 1, "-n-1": -10 * n_xl, "farneg": -10 ** 6, "n": n_il, "n+1": n_il + 1,
                         "lastpad": max(n_il, P[0] - 1), "padsize": P[0], "farpos": 10 ** 6}[case["ord"]]
                    call = lambda: r.read_correlated_diagonal(d)
                else:
                    nd = n_il + n_xl - 1
                    d = bad_ordinal(case["ord"], nd, P[0] + P[1] - 1)
                    if -nd <= d < 0:
                        allowed = []   # anti-diagonals are not documented to accept negative ordinals
                    call = lambda: r.read_anticorrelated_diagonal(d)
                what = f"{m}({d}) with grid {n_il}x{n_xl}"
            elif m in ("cdiag_crop", "adiag_crop"):
                if m == "cdiag_crop":
                    d = int(u[0] * (n_il + n_xl - 1)) - (n_xl - 1)
                    L = ops.diag_len_c(d, n_il, n_xl)
                else:
                    d = int(u[0] * (n_il + n_xl - 1))
                    L = ops.diag_len_a(d, n_il, n_xl)
                a, b = bad_range(case["rng"], L, L + 4, u[1])
                empty_ok = a >= b
                what = f"{m}({d}, {a}, {b}) with diagonal length {L}"
                if m == "cdiag_crop":
                    call = lambda: r.read_correlated_diagonal(d, min_cd_idx=a, max_cd_idx=b)
                else:
                    call = lambda: r.read_anticorrelated_diagonal(d, min_ad_idx=a, max_ad_idx=b)
            else:
                raise ValueError(m)
        warm_up(r, T, case.get("warm"))
        try:
            outcome, value = "ok", call()
        except Exception as e:
            outcome, value = "exc", e
        if empty_ok:
            allowed = list(allowed) + [np.zeros(0, dtype=np.float32)]
        res = classify(outcome, value, allowed, what, case)
    finally:
        H.close()
    fam = case["file"]["family"] if T.is_2d or T.structured else "irregular"
    cls = case["ord"] if "(" in what and m in ("get_trace", "trace", "gen_trace_header", "header", "read_inline",
                                                "read_crossline", "read_zslice", "depth_slice", "cdiag", "adiag") else case["rng"]
    nontriv = cls in ("lastpad", "padsize", "-1", "-n", "hi=pad", "both-beyond", "lo=-1", "hi=n+1", "n")
    return {"sig": [fam, m, case["axis"], cls, case["coord"] if "number" in m or m in ("iline", "xline", "read_zslice_coord") else ""] if nontriv else None,
            "labels": [res, m, fam]}


def shard_main(ctx):
    if not ctx.explore("oob3d", cases(ctx), run_case, ctx.n(700, 8000)):
        return
    ctx.explore("oob2d", cases(ctx, two_d=True), run_case, ctx.n(300, 3000))


def replay(case, ctx):
    run_case(case, ctx)

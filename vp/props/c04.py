"""C04 trace-header and file-header preservation through compression."""
import os
import numpy as np
from hypothesis import strategies as st

from .. import conv, gen, sources
from ..core import Violation
from ..spec import FIELDS

META = {
    "level": "exploration",
    "rule": ("case = generated SEG-Y (regular / irregular / 2D; per-field content drawn from zero, constant, varying, "
             "duplicate, extreme, negative, equal-at-both-ends-but-varying; trace counts around 128-multiples) x "
             "detection mode {heuristic, thorough, exhaustive, strip} x reduce_iops, or a NumpyConverter header dict "
             "(0-6 fields x integer dtype x C/F/broadcast layout); every one of the 89 fields of every trace is "
             "compared through gen_trace_header, gen_trace_header(load_all_headers=True), header[i] and "
             "get_tracefield_values, plus the 3600 file-header bytes; non-trivial = >=3 stored arrays, or a field "
             "equal in first and last trace but varying, or 4*n %% 512 != 0 with >=2 arrays, or a non-int32 dtype; "
             "distinct = (mode, geometry, n_arrays class, stride class, field kinds)"),
    "assumptions": [
        "segyio's reading of the generated SEG-Y is the truth for header values",
        "heuristic mode is asserted only when the harness-evaluated precondition of the statement holds; other cases are counted as outside_precondition",
        "field 37 (offset), 109, 115, 117 are kept constant and 189/193 consistent with the geometry (what segyio needs to open the file as intended)",
    ],
}


def check_headers(sgz, S, mode, ctx_labels):
    from seismic_zfp.read import SgzReader
    import seismic_zfp
    n = S.n
    want = S.headers
    if mode == "strip":
        want = [{f: 0 for f in FIELDS} for _ in range(n)]
    with SgzReader(sgz) as r:
        if r.tracecount != n:
            raise Violation("tracecount", f"{r.tracecount} != {n}")
        if bytes(r.file_text_header) != S.file_header[:3200]:
            raise Violation("text-header-bytes", "file_text_header differs from source bytes 0-3199")
        if bytes(r.file_binary_header) != S.file_header[3200:3600]:
            raise Violation("binary-header-bytes", "file_binary_header differs from source bytes 3200-3599")
        n_arrays = r.n_header_arrays
        for i in range(n):
            h = r.gen_trace_header(i)
            g = {int(k): int(v) for k, v in h.items()}
            for f in FIELDS:
                if g.get(f) != want[i][f]:
                    raise Violation("gen_trace_header", f"trace {i} field {f}: got {g.get(f)} want {want[i][f]} (mode {mode})")
            # what a caller does with the header it was handed (convert_to_segy itself writes the delay and the
            # sample count into it) must not show in any header read later from this object
            for k in list(h)[:3] + [k for k in h if int(k) in (105, 109, 115)]:
                h[k] = 0x5A5A5A
        if n:
            g = {int(k): int(v) for k, v in r.gen_trace_header(0).items()}
            for f in FIELDS:
                if g.get(f) != want[0][f]:
                    raise Violation("gen_trace_header", f"trace 0 field {f} read again after the caller wrote into the headers it had been "
                                    f"handed: got {g.get(f)} want {want[0][f]} (mode {mode})")
    with SgzReader(sgz) as r:
        for i in range(n):
            h = r.gen_trace_header(i, load_all_headers=True)
            for f in FIELDS:
                if int(h[f]) != want[i][f]:
                    raise Violation("gen_trace_header-load_all", f"trace {i} field {f}: got {int(h[f])} want {want[i][f]}")
    with seismic_zfp.open(sgz) as e:
        if len(e.header) != n:
            raise Violation("len-header", f"{len(e.header)} != {n}")
        for i in range(n):
            h = e.header[i]
            for f in FIELDS:
                if int(h[f]) != want[i][f]:
                    raise Violation("emulator-header", f"trace {i} field {f}: got {int(h[f])} want {want[i][f]}")
            for k in list(h)[:2]:
                h[k] = 0x5A5A5A
    with SgzReader(sgz) as r:
        stored = [int(k) for k in r.stored_header_keys]
        for f in stored:
            a = np.asarray(r.get_tracefield_values(f))
            src = np.array([want[i][f] for i in range(n)])
            if S.desc["geom"] == "2d":
                exp = src
            else:
                exp = np.zeros(S.desc["n_il"] * S.desc["n_xl"], dtype=np.int64)
                exp[S.pos] = src
                exp = exp.reshape(S.desc["n_il"], S.desc["n_xl"])
            if a.shape != exp.shape or not np.array_equal(a.astype(np.int64), exp):
                raise Violation("get_tracefield_values", f"field {f}: differs from source (shape {a.shape} vs {exp.shape})")
    return n_arrays


def run_segy(case, ctx):
    d = ctx.tmp()
    if case.get("prior") is not None and case["src"]["geom"] != "irregular":
        pdesc = dict(case["src"], fields={}, values={"kind": "gauss", "vseed": case["prior"]}, text_seed=case["prior"] % 997)
        P = sources.build(pdesc, d)
        conv.segy_convert(P.path, os.path.join(d, "prior.sgz"), bpv=case.get("bpv", 8), blockshape=None,
                          reduce_iops=case.get("reduce", False), header_detection=case["mode"])
    S = sources.build(case["src"], d)
    sources.annotate(case, S)
    mode = case["mode"]
    out = os.path.join(d, "o.sgz")
    # (one case in five: the converter object has written another file first, with ANOTHER header detection)
    em = case.get("earlier_mode")
    conv.segy_convert(S.path, out, bpv=case.get("bpv", 8), blockshape=None,
                      reduce_iops=case.get("reduce", False), header_detection=mode,
                      earlier=[(os.path.join(d, "first.sgz"), 8, None)] if em else (), earlier_mode=em)
    labels = [mode, S.desc["geom"]] + (["after-run-with:" + em] if em else [])
    if mode == "heuristic" and not S.heuristic_ok:
        # outside the statement's precondition: run, but do not assert field values
        return {"sig": None, "labels": labels + ["outside_precondition"]}
    n_arrays = check_headers(out, S, mode, labels)
    kinds = sorted(set(v["kind"] for v in case["src"]["fields"].values()))
    stride = (4 * S.n) % 512 == 0
    nontriv = n_arrays >= 3 or "mid" in kinds or (not stride and n_arrays >= 2)
    sig = [mode, S.desc["geom"], min(n_arrays, 6), stride, kinds, case.get("reduce", False)]
    return {"sig": sig if nontriv else None, "labels": labels + [f"arrays={min(n_arrays, 6)}", "stride512" if stride else "stride-odd"]
            + (["after-prior-conversion"] if case.get("prior") is not None else [])}


@st.composite
def segy_cases(draw):
    geom = draw(st.sampled_from(["regular", "regular", "irregular", "2d"]))
    mode = draw(st.sampled_from(["heuristic", "thorough", "exhaustive", "strip"]))
    # trace counts such that 4*n hits <512, =512 (n=128), multiples and non-multiples
    dims = None
    if geom == "regular" and draw(st.booleans()):
        dims = draw(st.sampled_from([(8, 16), (16, 8), (16, 16), (2, 64), (4, 32), (9, 14), (11, 12), (3, 43), (16, 24)]))
    src = draw(sources.segy_source(geom=geom, max_dim=12, max_ns=12, allow_mid=(mode != "heuristic") or draw(st.booleans()),
                                   dims=dims))
    if geom == "2d" and draw(st.booleans()):
        src["n_tr"] = draw(st.sampled_from([127, 128, 129, 256, 130]))
    c = {"src": src, "mode": mode, "reduce": draw(st.booleans()) if geom == "regular" else False,
         "bpv": draw(st.sampled_from([8, 4, 16]))}
    if draw(st.integers(0, 4)) == 0:
        c["earlier_mode"] = draw(st.sampled_from([m for m in ("heuristic", "thorough", "exhaustive", "strip") if m != mode]))
    if draw(st.integers(0, 3)) == 0:
        # an earlier conversion, in this process, of a survey of the same geometry whose free header fields are all
        # constant, stored under the same file name: what was learnt about its headers must not be applied here
        c["prior"] = draw(st.integers(0, 2 ** 16))
    return c


# ---- NumPy route -----------------------------------------------------------------------------
DTYPES = ["int8", "int16", "int32", "int64", "uint8", "uint16", "uint32", "intc", ">i2", ">i4", ">u4", ">i8", "<i4", "<u2"]   # incl. explicit byte orders (what np.frombuffer on SEG-Y headers gives)
NP_FIELDS = [1, 5, 9, 21, 71, 73, 77, 181, 185, 189, 193]


@st.composite
def numpy_cases(draw):
    n_il, n_xl, ns = draw(st.integers(2, 12)), draw(st.integers(2, 12)), draw(st.integers(2, 9))
    if draw(st.booleans()):
        n_il, n_xl = draw(st.sampled_from([(8, 16), (16, 16), (4, 32), (9, 14), (16, 24)]))
    codes = draw(st.lists(st.sampled_from(NP_FIELDS), max_size=6, unique=True))
    hd = {}
    for c in sorted(codes):
        hd[str(c)] = {"dtype": draw(st.sampled_from(DTYPES)), "layout": draw(st.sampled_from(["C", "F", "strided"])),
                      "seed": draw(st.integers(0, 999))}
    return {"shape": [n_il, n_xl, ns], "headers": hd, "il": list(draw(gen.line_axis(n_il))),
            "xl": list(draw(gen.line_axis(n_xl))), "pass_axes": draw(st.booleans()),
            "axis_dtype": draw(st.sampled_from(["int64", "int32", "float64", "list"])),
            "dict_used_before": draw(st.integers(0, 3)) == 0,
            "values": draw(gen.values_spec)}


def run_numpy(case, ctx):
    import segyio
    from seismic_zfp.read import SgzReader
    import seismic_zfp
    d = ctx.tmp()
    n_il, n_xl, ns = case["shape"]
    data = gen.make_values((n_il, n_xl, ns), case["values"]["kind"], case["values"]["vseed"])
    il = gen.axis_values(*case["il"], n_il)
    xl = gen.axis_values(*case["xl"], n_xl)
    hdrs, truth = {}, {}
    for cs, spec_ in case["headers"].items():
        c = int(cs)
        dt = np.dtype(spec_["dtype"])
        info = np.iinfo(dt)
        rng = np.random.Generator(np.random.PCG64(spec_["seed"] + c))
        if c == 189:
            a = np.repeat(np.array(il), n_xl).reshape(n_il, n_xl)
        elif c == 193:
            a = np.tile(np.array(xl), n_il).reshape(n_il, n_xl)
        else:
            a = rng.integers(max(info.min, -2 ** 31), min(info.max, 2 ** 31 - 1), (n_il, n_xl), endpoint=True)
        if a.min() < info.min or a.max() > info.max:
            continue   # line numbers that do not fit the drawn dtype: keep the default header instead
        a = a.astype(dt)
        if spec_["layout"] == "F":
            a = np.asfortranarray(a)
        elif spec_["layout"] == "strided":
            big = np.zeros((n_il, 2 * n_xl), dtype=dt)
            big[:, ::2] = a
            a = big[:, ::2]
        hdrs[int(c)] = a   # members of the TraceField enumeration are plain ints
        truth[c] = np.asarray(a).astype(np.int64)
    kw = {}
    if case["pass_axes"]:
        mk = {"int64": lambda v: np.array(v, dtype=np.int64), "int32": lambda v: np.array(v, dtype=np.int32),
              "float64": lambda v: np.array(v, dtype=np.float64), "list": list}[case["axis_dtype"]]
        kw = dict(ilines=mk(il), xlines=mk(xl))
    elif 189 not in truth or 193 not in truth:
        # axes come from the header arrays or default to 0..n-1
        il = list(truth[189][:, 0]) if 189 in truth else list(range(n_il))
        xl = list(truth[193][0, :]) if 193 in truth else list(range(n_xl))
    truth.setdefault(189, np.repeat(np.array(il, dtype=np.int64), n_xl).reshape(n_il, n_xl))
    truth.setdefault(193, np.tile(np.array(xl, dtype=np.int64), n_il).reshape(n_il, n_xl))
    out = os.path.join(d, "o.sgz")
    if case.get("dict_used_before"):
        # the caller's header dict has served another conversion before (a cube of the same shape with other
        # explicit axes): what that conversion derived must not have been left in the caller's dict
        keys_before = sorted(hdrs)
        ekw = {}
        if 189 not in hdrs:      # (an axis given twice must agree with the header array: only free axes differ)
            ekw["ilines"] = np.arange(1000, 1000 + n_il)
        if 193 not in hdrs:
            ekw["xlines"] = np.arange(500, 500 + 3 * n_xl, 3)
        conv.numpy_convert(data * np.float32(0.5), os.path.join(d, "earlier.sgz"), 8, (4, 4, -1), trace_headers=hdrs, **ekw)
        if sorted(hdrs) != keys_before:
            raise Violation("numpy-header-dict-modified", f"the trace_headers dict passed to NumpyConverter had keys {keys_before}, now {sorted(hdrs)}")
    conv.numpy_convert(data, out, 8, (4, 4, -1), trace_headers=hdrs, **kw)
    with SgzReader(out) as r:
        stored = sorted(int(k) for k in r.stored_header_keys)
        if stored != sorted(truth):
            raise Violation("numpy-stored-fields", f"stored {stored}, given/default {sorted(truth)}")
        for c, t in truth.items():
            a = np.asarray(r.get_tracefield_values(c))
            if a.shape != t.shape or not np.array_equal(a.astype(np.int64), t):
                bad = np.argwhere(a.astype(np.int64) != t) if a.shape == t.shape else []
                raise Violation("numpy-header-array", f"field {c} dtype {case['headers'].get(str(c), {}).get('dtype', 'default')}: "
                                f"{len(bad)} of {t.size} values differ" + (f"; first {bad[0].tolist()}: got {a[tuple(bad[0])]} want {t[tuple(bad[0])]}" if len(bad) else f" shape {a.shape}"))
        for i in sorted({0, 1, n_xl, n_il * n_xl - 1, (n_il * n_xl) // 2}):
            h = r.gen_trace_header(i)
            for c, t in truth.items():
                if int(h[c]) != int(t.reshape(-1)[i]):
                    raise Violation("numpy-gen_trace_header", f"trace {i} field {c}: got {int(h[c])} want {int(t.reshape(-1)[i])}")
            for f in FIELDS:
                if f not in truth and int(h[f]) != 0:
                    raise Violation("numpy-gen_trace_header", f"trace {i} field {f} not given, reads {int(h[f])}")
    dts = sorted(set(v["dtype"] for v in case["headers"].values()))
    nontriv = len(truth) >= 3 or any(x not in ("int32", "intc") for x in dts) or (4 * n_il * n_xl) % 512 != 0
    return {"sig": ["numpy", len(truth), dts, (4 * n_il * n_xl) % 512 == 0, case["pass_axes"]] if nontriv else None,
            "labels": ["numpy"] + dts}


def run_case(case, ctx):
    if case["check"] == "numpy":
        return run_numpy(case, ctx)
    return run_segy(case, ctx)


def shard_main(ctx):
    if ctx.shard in (2, 5):
        # one survey of more than 65 536 traces, every run (see vp/big.py): segyio reader on one shard, reduced-I/O
        # reader and 'thorough' on another
        from .. import big
        case = {"check": "segy", "src": big.REGULAR, "mode": "heuristic" if ctx.shard == 2 else "thorough",
                "reduce": ctx.shard == 5, "bpv": 8}
        try:
            ctx.evaluate(case, run_case)
        except Violation as v:
            ctx.failures.append({"kind": v.kind, "detail": v.detail, "case": case})
            return
    if not ctx.explore("segy", segy_cases(), run_case, ctx.n(150, 1500)):
        return
    ctx.explore("numpy", numpy_cases(), run_case, ctx.n(120, 1000))


def replay(case, ctx):
    run_case(case, ctx)

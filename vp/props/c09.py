"""C09 2D lines: trace order, headers and sample fidelity."""
import os
import numpy as np
from hypothesis import strategies as st

from .. import codec, conv, files, gen, ops, sources, stages
from ..core import Violation
from .c03 import MODE_CODE

META = {
    "level": "exploration",
    "rule": ("case = 2D SEG-Y in one of three variants (all-zero inline/crossline numbers, single inline, single "
             "crossline), 2..260 traces and 2..1300 samples built as k*b+r against blockshape[1]/[2], every valid "
             "(1, n, m) blockshape x 8 rates, header content as in C04, + 1-8 read calls (traces, windows, sub-planes, "
             "headers, emulator); oracle: conformance (2D rules), stack(get_trace) == 2D ZFP image of the section "
             "(bitwise), read_subplane == window of it, trace/header i == source, volume-style reads raise the "
             "dimensionality error, emulator exposes trace/header/samples/bin/text; non-trivial = >1 trace group, or "
             "n_traces %% blockshape[1] != 0, or window crossing a group/block boundary; distinct = (variant, rate, "
             "blockshape, group class, residues)"),
    "assumptions": [
        "libzfp 2D image of the (traces x samples) section extended by edge replication is the expected section",
        "rates 1/4 and 1/2 are listed as valid by the property but impossible in libzfp for 2D (>= 9 bits per 4x4 block): known finding K03, the library now refuses them cleanly",
    ],
}

METHODS = ["get_trace", "get_trace_window", "read_subplane", "read_subplane", "trace", "header", "gen_trace_header",
           "gen_trace_header_all", "get_tracefield_values"]


@st.composite
def cases(draw):
    # (the 22 settings below 1 bit are a known finding: drawn, but rarely)
    rate, bs = draw(st.one_of(st.sampled_from([x for x in gen.SETTINGS_2D if x[0] >= 1]),
                              st.sampled_from([x for x in gen.SETTINGS_2D if x[0] >= 1]),
                              st.sampled_from([x for x in gen.SETTINGS_2D if x[0] >= 1]),
                              st.sampled_from(gen.SETTINGS_2D)))
    cls_t = draw(st.sampled_from(gen.DIM_CLASSES))
    cls_s = draw(st.sampled_from(gen.DIM_CLASSES))
    n_tr = min(260, draw(gen.dim(bs[1], classes=[cls_t])))
    ns = min(1300, draw(gen.dim(bs[2], classes=[cls_s])))
    if n_tr * ns > 60_000:
        ns = max(2, 60_000 // n_tr)
    src = draw(sources.segy_source(geom="2d", max_dim=3, max_ns=4, allow_mid=True))
    src["n_tr"], src["ns"] = n_tr, ns
    mode = draw(st.sampled_from(["heuristic", "thorough", "exhaustive", "strip"]))
    n = draw(st.integers(1, 8))
    return {"src": src, "setting": {"rate": rate, "blockshape": list(bs)}, "mode": mode,
            "ops": [draw(ops.abstract_op(METHODS)) for _ in range(n)], "shared_reader": draw(st.booleans()),
            **({"companion": draw(st.integers(0, 10 ** 6))} if draw(st.integers(0, 3)) == 0 else {})}


def run_case(case, ctx):
    from seismic_zfp.read import SgzReader
    from seismic_zfp.utils import WrongDimensionalityError
    import seismic_zfp
    d = ctx.tmp()
    S = sources.build(case["src"], d)
    rate, bs = case["setting"]["rate"], tuple(case["setting"]["blockshape"])
    out = os.path.join(d, "o.sgz")
    try:
        conv.segy_convert(S.path, out, rate, bs, header_detection=case["mode"])
    except Exception as e:
        if os.path.exists(out) and os.path.getsize(out) > 0:
            raise Violation("conversion-failed-leaving-output", f"{type(e).__name__}: {e}")
        raise Violation("valid-2d-setting-refused", f"rate {rate} blockshape {bs}: {type(e).__name__}: {e}")
    mode = case["mode"]
    headers = S.headers
    if mode == "strip":
        headers = [{f: 0 for f in stages.FIELDS} for _ in range(S.n)]
    elif mode == "heuristic" and not S.heuristic_ok:
        headers = None
    want = stages.Stage(vol=codec.image(S.traces, rate), samples=S.samples, headers=headers, pos=list(range(S.n)),
                        tracecount=S.n, rate=rate, bs=bs, source_code=0, detection_code=MODE_CODE[mode],
                        segy_header=S.file_header)
    stages.check_file(out, want, "2d")
    T = files.Truth(conv.read_bytes(out))
    aops = case["ops"] if headers is not None else [a for a in case["ops"] if a["m"] not in ops.METHODS_3D_HEADERS]
    companion = None
    if case.get("companion") is not None:
        # a second line of the same geometry and layout with other samples, open in another reader meanwhile
        cdesc = {"kind": "spec", "family": "2d", "rate": rate, "blockshape": list(bs), "shape": [T.n_tr, T.n_s], "version": "0.2.8",
                 "values": {"kind": "gauss", "vseed": int(case["companion"])}, "z0": 0, "dz_us": 4000, "arrays": [1]}
        companion = files.build(cdesc, d, name="companion.sgz")
        aops = [a for a in aops if a["m"] not in ops.METHODS_3D_HEADERS]
        labels_extra = ["companion-reader"]
    labels = ops.run_ops(out, T, aops, fresh=not case.get("shared_reader"), companion=companion)
    if companion is not None:
        labels.append("companion-reader")
    if case.get("shared_reader"):
        labels.append("shared-reader")
    with SgzReader(out) as r:
        for name, call in (("read_inline", lambda: r.read_inline(0)), ("read_crossline", lambda: r.read_crossline(0)),
                           ("read_zslice", lambda: r.read_zslice(0)), ("read_subvolume", lambda: r.read_subvolume(0, 1, 0, 1, 0, 1)),
                           ("read_volume", lambda: r.read_volume()), ("cdiag", lambda: r.read_correlated_diagonal(0)),
                           ("adiag", lambda: r.read_anticorrelated_diagonal(0))):
            try:
                call()
            except WrongDimensionalityError:
                continue
            except Exception as e:
                raise Violation("volume-read-on-2d-wrong-error", f"{name}: {type(e).__name__}: {e}")
            raise Violation("volume-read-on-2d-not-refused", name)
    with seismic_zfp.open(out) as e:
        if len(e.trace) != S.n or len(e.header) != S.n or e.tracecount != S.n:
            raise Violation("emulator-2d-lengths", f"{len(e.trace)}, {len(e.header)}, {e.tracecount} vs {S.n}")
        if len(e.samples) != len(S.samples):
            raise Violation("emulator-2d-samples", f"{len(e.samples)}")
        if bytes(e.bin.buf) != S.file_header[3200:3600]:
            raise Violation("emulator-2d-bin", "bin differs from the source's binary header")
        if len(e.text[0]) == 0:
            raise Violation("emulator-2d-text", "empty text header")
        for acc in ("iline", "xline", "depth_slice"):
            try:
                getattr(e, acc)[0]
            except WrongDimensionalityError:
                continue
            except Exception as ex:
                raise Violation("emulator-2d-wrong-error", f"{acc}: {type(ex).__name__}")
            raise Violation("emulator-2d-not-refused", acc)
    groups = -(-S.n // bs[1])
    nontriv = groups > 1 or S.n % bs[1] != 0 or any(l == "read_subplane" for l in labels)
    return {"sig": [case["src"]["variant"], rate, list(bs), gen.dim_class(S.n, bs[1]), S.n % 4,
                    gen.dim_class(case["src"]["ns"], bs[2]), case["src"]["ns"] % 4, mode] if nontriv else None,
            "labels": labels + [case["src"]["variant"], f"rate={rate}", "groups>1" if groups > 1 else "one-group"]}


def shard_main(ctx):
    if ctx.shard == 6:
        # one 2D line of more than 65 536 traces, every run (vp/big.py)
        from .. import big
        case = {"src": big.LINE_2D, "setting": {"rate": 4, "blockshape": [1, 2048, 4]}, "mode": "heuristic", "ops": [], "shared_reader": True}
        try:
            ctx.evaluate(case, run_case)
        except Violation as v:
            ctx.failures.append({"kind": v.kind, "detail": v.detail, "case": case})
            return
    ctx.explore("2d", cases(), run_case, ctx.n(120, 1500))


def replay(case, ctx):
    run_case(case, ctx)

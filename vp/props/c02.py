"""C02 access-path coherence: every read API returns the corresponding slice of the independently
decoded volume."""
import json
import os
from hypothesis import strategies as st

from .. import files, ops
from ..core import Violation

META = {
    "level": "exploration",
    "rule": ("case = one SGZ file (written by the independent spec writer: three layout families x 8 rates x 8 format "
             "versions x regular/irregular/2D x 2-5 footer arrays x ascending/descending axes; or a test_data fixture) "
             "+ 1-10 in-range read calls drawn over every public read method (ordinal/number/coordinate line reads, "
             "sub-volumes with bounds k*b+r, traces with windows, both diagonal families with crops, sub-planes, "
             "emulator accessors, subvolume[...] with steps, tools.cube, xarray backend via data/isel/sel); "
             "non-trivial call = bounds not block aligned or crossing a block boundary, non-default layout, stepped or "
             "coordinate addressing; distinct = (layout family, rate, method, residue classes of bounds)"),
    "assumptions": [
        "truth = cell-by-cell/block-wise decode of the file bytes by the harness's spec-only reader (libzfp trusted)",
        "a one-sample trace window may come back 0-dimensional (np.squeeze); values are compared, not that shape",
        "irregular files: trace ordinal i <-> i-th grid position whose stored inline number is non-zero (library convention)",
        "subvolume[...] is exercised on files with whole-millisecond sample axes only (it addresses samples by integer coordinate)",
    ],
}

_cache = {}


def get_file(desc, ctx):
    key = json.dumps(desc, sort_keys=True)
    if key not in _cache:
        if len(_cache) > 4:
            for k in list(_cache)[:-2]:
                p = _cache.pop(k)[0]
                if p.startswith(ctx.work) and os.path.exists(p):
                    os.remove(p)
        d = os.path.join(ctx.work, "files")
        os.makedirs(d, exist_ok=True)
        _cache[key] = files.build(desc, d, name=f"f{abs(hash(key)) % 10**10}.sgz")
    return _cache[key]


@st.composite
def cases(draw, ctx, file_strategy):
    desc = draw(file_strategy)
    path, T = get_file(desc, ctx)
    n = draw(st.integers(1, 10))
    c = {"file": desc, "ops": [draw(ops.op_for(T)) for _ in range(n)]}
    if desc.get("kind") == "spec" and draw(st.integers(0, 3)) == 0:
        c["companion"] = draw(st.integers(0, 10 ** 6))   # another file of the same layout, open in a second reader meanwhile
    return c


def run_case(case, ctx):
    path, T = get_file(case["file"], ctx)
    sigs, labels = [], []
    fam = case["file"].get("family")
    other = None
    if case.get("companion") is not None:
        cdesc = dict(case["file"], values={"kind": "gauss", "vseed": int(case["companion"])})
        cpath, CT = files.build(cdesc, ctx.tmp(), name="companion.sgz")
        other = ops.Handles(cpath, CT)
    try:
        return _run_ops(case, ctx, path, T, fam, other, CT if other else None)
    finally:
        if other is not None:
            other.close()


def _run_ops(case, ctx, path, T, fam, other, CT):
    sigs, labels = [], []
    for op in case["ops"]:
        if other is not None and op["m"] not in ("xarray", "tools.cube", "meta"):
            # the same item of the companion file first, through a reader that stays open
            k2, w2 = ops.expected(CT, op)
            try:
                g2 = ops.perform(other, op)
            except Exception as e:
                raise Violation(f"exception:{op['m']}", f"companion file, {op}: {type(e).__name__}: {e}")
            ops.compare(k2, g2, w2, op)
        H = ops.Handles(path, T)
        try:
            kind, want = ops.expected(T, op)
            try:
                got = ops.perform(H, op)
            except Exception as e:
                raise Violation(f"exception:{op['m']}", f"{op} on {files.describe(case['file'])}: {type(e).__name__}: {e}")
            ops.compare(kind, got, want, op)
        finally:
            H.close()
        bc = ops.box_class(op, T)
        sigs.append([fam, T.s.rate, case["file"].get("version", case["file"].get("name")), op["m"], bc,
                     bool(op.get("steps")), T.structured])
        labels.append(op["m"])
    if other is not None:
        labels.append("companion-reader")
    labels.append("file:" + str(fam))
    labels.append("irregular" if (not T.is_2d and not T.structured) else ("2d" if T.is_2d else "regular"))
    return {"sigs": sigs, "labels": labels}


def shard_main(ctx):
    if not ctx.explore("spec3d", cases(ctx, files.spec_file_3d()), run_case, ctx.n(300, 3000)):
        return
    if not ctx.explore("spec2d", cases(ctx, files.spec_file_2d()), run_case, ctx.n(100, 800)):
        return
    if not ctx.explore("fixture3d", cases(ctx, files.fixture_files(3)), run_case, ctx.n(100, 800)):
        return
    ctx.explore("fixture2d", cases(ctx, files.fixture_files(2)), run_case, ctx.n(20, 150))


def replay(case, ctx):
    run_case(case, ctx)

"""Predicates of the known-findings file.  A finding suppresses a violation only when its predicate
holds for the failing case *and* the violation kind; anything else of the same property is reported."""

PREDICATES = {}


def predicate(name):
    def deco(fn):
        PREDICATES[name] = fn
        return fn
    return deco


def match(open_known, prop, case, violation):
    for k in open_known:
        fn = PREDICATES.get(k["predicate"])
        if fn is None:
            continue
        try:
            if fn(case, violation):
                return k["id"]
        except Exception:
            continue
    return None

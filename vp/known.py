"""Predicates of the known-findings file.  A finding suppresses a violation only when its predicate
holds for the failing case *and* the violation kind; anything else of the same property is reported."""

PREDICATES = {}


def predicate(name):
    def deco(fn):
        PREDICATES[name] = fn
        return fn
    return deco


def match(open_known, prop, case, violation):
    for k in open_known:
        fn = PREDICATES.get(k["predicate"])
        if fn is None:
            continue
        try:
            if fn(case, violation):
                return k["id"]
        except Exception:
            continue
    return None


def _irregular_inline_zero(src):
    """Irregular source in which a populated trace carries inline number 0."""
    if not src or src.get("geom") != "irregular":
        return False
    il0, ils = src["il"]
    n_xl = src["n_xl"]
    return any(il0 + ils * (g // n_xl) == 0 for g in src["keep"])


@predicate("irregular_inline_zero")
def _k_inline_zero(case, v):
    return _irregular_inline_zero(case.get("src"))


@predicate("irregular_looks_regular")
def _k_looks_regular(case, v):
    """Irregular source that segyio's cube metrics call a regular cube (observed on the input by the
    harness with segyio, recorded in the case as obs.segyio_calls_it_regular)."""
    src = case.get("src")
    return bool(src) and src.get("geom") == "irregular" and case.get("obs", {}).get("segyio_calls_it_regular") is True


@predicate("twod_below_one_bit_refused")
def _k_2d_low_rate(case, v):
    """2D conversion at 1/4 or 1/2 bit per voxel is refused (cleanly): libzfp cannot produce it."""
    s = case.get("setting") or {}
    bs = s.get("blockshape") or case.get("bs") or [0]
    two_d = bs[0] == 1 or case.get("two_d") is True
    return two_d and v.kind in ("valid-2d-setting-refused", "valid-setting-refused") \
        and "2D compression requires at least 1 bit per voxel" in v.detail


@predicate("hash_is_last_write")
def _k_hash_last(case, v):
    """Partial image that lacks the final hash patch: get_source_data_hash reads zeros."""
    return v.kind == "partial-file-differs:hash" and case.get("obs", {}).get("hash_present") is False

"""Thin wrappers that run the library's writers the way a caller would."""
import os
import numpy as np

from . import env


def numpy_convert(data, out, bpv, blockshape, ilines=None, xlines=None, samples=None, trace_headers=None, earlier=()):
    """`earlier`: (out, bpv, blockshape) conversions run first on the *same* converter object (the
    converter classes are documented as writing "SGZ file(s)")."""
    from seismic_zfp.conversion import NumpyConverter
    kw = {}
    if trace_headers is not None:
        kw["trace_headers"] = trace_headers
    with env.quiet():
        with NumpyConverter(data, ilines=ilines, xlines=xlines, samples=samples, **kw) as c:
            for o0, b0, s0 in earlier:
                c.run(o0, bits_per_voxel=b0, blockshape=s0)
            c.run(out, bits_per_voxel=bpv, blockshape=blockshape)


def segy_convert(path, out, bpv=4, blockshape=None, reduce_iops=False, header_detection="heuristic", queue=None,
                 window=None, cls="SegyConverter", earlier=()):
    import seismic_zfp.conversion as conv
    C = getattr(conv, cls)
    kw = {}
    if window is not None:
        kw = dict(min_il=window[0], max_il=window[1], min_xl=window[2], max_xl=window[3])
    with env.quiet():
        with C(path, **kw) as c:
            if queue is not None:
                # queue capacity = min(16, (mem_limit // 2) // inline_set_bytes): drive it through the
                # public attribute
                orig = c.check_memory

                def check_memory(inline_set_bytes, _q=queue, _c=c, _orig=orig):
                    _c.mem_limit = 2 * inline_set_bytes * _q
                    return _orig(inline_set_bytes=inline_set_bytes)
                c.check_memory = check_memory
            for o0, b0, s0 in earlier:
                c.run(o0, bits_per_voxel=b0, blockshape=s0, reduce_iops=reduce_iops, header_detection=header_detection)
            c.run(out, bits_per_voxel=bpv, blockshape=blockshape, reduce_iops=reduce_iops,
                  header_detection=header_detection)


def cli_invoke(args):
    """Run the click CLI in-process.  Returns (exit_code, exception)."""
    from click.testing import CliRunner
    from seismic_zfp.cli import cli
    with env.quiet():
        r = CliRunner().invoke(cli, [str(a) for a in args])
    return r.exit_code, r.exception


def read_bytes(path):
    with open(path, "rb") as f:
        return f.read()

"""Thin wrappers that run the library's writers the way a caller would."""
import os
import queue as _queue
import threading
import numpy as np

from . import env


class _Retire:
    """Handed to a worker thread the library left behind: whatever it does with it raises, and the
    thread ends."""


_hook_installed = []


def _quiet_retirement():
    if _hook_installed:
        return
    prev = threading.excepthook

    def hook(a):
        t = a.thread
        if t is not None and getattr(t, "_vp_retired", False):
            return          # the exception we provoked to end a left-over worker
        prev(a)
    threading.excepthook = hook
    _hook_installed.append(True)


def retire_leftover_workers():
    """Every conversion leaves the library's compressor and writer threads blocked for ever in
    Queue.get() (daemon threads, never joined).  A shard runs thousands of conversions and this machine
    allows about 32 000 threads in all, so after the conversion call has returned, and only when the
    worker's queue is idle (empty, nothing unfinished), the harness hands each such thread a value on which
    it fails and ends.  Nothing is done to threads of a conversion still running, to queues that are not
    queue.Queue (the controlled scheduler of C16), or to threads with other targets."""
    victims = []
    for t in threading.enumerate():
        if not t.daemon or t is threading.current_thread() or getattr(t, "_vp_retired", False):
            continue
        target = getattr(t, "_target", None)
        args = getattr(t, "_args", None)
        if target is None or not args:
            continue
        if getattr(target, "__module__", "") != "seismic_zfp.conversion_utils" or target.__name__ not in ("compressor", "writer"):
            continue
        q = args[0]
        if type(q) is not _queue.Queue:
            continue
        with q.mutex:
            idle = not q.queue and q.unfinished_tasks == 0
        if not idle:
            continue
        victims.append((t, q))
    if not victims:
        return 0
    _quiet_retirement()
    for t, q in victims:
        t._vp_retired = True
        try:
            q.put_nowait(_Retire())
        except _queue.Full:
            t._vp_retired = False
    for t, q in victims:
        t.join(timeout=1.0)
    return len(victims)


def numpy_convert(data, out, bpv, blockshape, ilines=None, xlines=None, samples=None, trace_headers=None, earlier=()):
    """`earlier`: (out, bpv, blockshape) conversions run first on the *same* converter object (the
    converter classes are documented as writing "SGZ file(s)")."""
    from seismic_zfp.conversion import NumpyConverter
    kw = {}
    if trace_headers is not None:
        kw["trace_headers"] = trace_headers
    try:
        with env.quiet():
            with NumpyConverter(data, ilines=ilines, xlines=xlines, samples=samples, **kw) as c:
                for o0, b0, s0 in earlier:
                    c.run(o0, bits_per_voxel=b0, blockshape=s0)
                c.run(out, bits_per_voxel=bpv, blockshape=blockshape)
    finally:
        retire_leftover_workers()


def segy_convert(path, out, bpv=4, blockshape=None, reduce_iops=False, header_detection="heuristic", queue=None,
                 window=None, cls="SegyConverter", earlier=(), earlier_mode=None):
    import seismic_zfp.conversion as conv
    C = getattr(conv, cls)
    kw = {}
    if window is not None:
        kw = dict(min_il=window[0], max_il=window[1], min_xl=window[2], max_xl=window[3])
    try:
        with env.quiet():
            with C(path, **kw) as c:
                if queue is not None:
                    # queue capacity = min(16, (mem_limit // 2) // inline_set_bytes): drive it through the
                    # public attribute
                    orig = c.check_memory

                    def check_memory(inline_set_bytes, _q=queue, _c=c, _orig=orig):
                        _c.mem_limit = 2 * inline_set_bytes * _q
                        return _orig(inline_set_bytes=inline_set_bytes)
                    c.check_memory = check_memory
                for o0, b0, s0 in earlier:
                    c.run(o0, bits_per_voxel=b0, blockshape=s0, reduce_iops=reduce_iops, header_detection=earlier_mode or header_detection)
                c.run(out, bits_per_voxel=bpv, blockshape=blockshape, reduce_iops=reduce_iops,
                      header_detection=header_detection)
    finally:
        retire_leftover_workers()


def cli_invoke(args):
    """Run the click CLI in-process.  Returns (exit_code, exception)."""
    from click.testing import CliRunner
    from seismic_zfp.cli import cli
    try:
        with env.quiet():
            r = CliRunner().invoke(cli, [str(a) for a in args])
    finally:
        retire_leftover_workers()
    return r.exit_code, r.exception


def leave_stale(out, key):
    """What an earlier run may have left at an output path: for one case in three (chosen by `key`, a string that is
    a function of the case) a file of another kind is put there first -- shorter than any SGZ header, or much longer
    than the file about to be written.  A writer replaces it; nothing of it may survive."""
    import zlib
    k = zlib.crc32(str(key).encode())
    if k % 3 or os.path.exists(out):
        return None
    size = [100, 5000, 3_000_000][(k // 3) % 3]
    with open(out, "wb") as f:
        f.write((b"stale content of an earlier run \x00\xff" * (size // 34 + 1))[:size])
    return size


def read_bytes(path):
    with open(path, "rb") as f:
        return f.read()

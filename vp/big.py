"""A few fixed surveys that are large in ONE respect (more than 65 536 traces) and tiny in every other: counts
pass the places where a 16-bit quantity would wrap or a fixed-size batch would end.  They are too expensive for
the random exploration of the header-by-header checks (every field of every trace is compared), so each such
check runs one of them on one shard, every run."""

_FIELDS = {"1": {"kind": "vary", "seed": 11}, "5": {"kind": "vary", "seed": 12}, "73": {"kind": "negvary", "seed": 13},
           "181": {"kind": "vary", "seed": 14}, "21": {"kind": "const", "seed": 15}}

# 258 x 257 = 66 306 traces of 3 samples
REGULAR = {"geom": "regular", "fmt": 5, "ext": 0, "dt_us": 2000, "delay": 0, "values": {"kind": "gauss", "vseed": 77},
           "text_seed": 5, "bin": {}, "ns": 3, "n_il": 258, "n_xl": 257, "il": [1000, 1], "xl": [20, 2], "fields": _FIELDS}

# 262 x 259 grid; every 97th position and the last three are holes: 67 156 traces (not a whole number of lines)
_GRID = 262 * 259
IRREGULAR = {"geom": "irregular", "fmt": 1, "ext": 0, "dt_us": 4000, "delay": 0, "values": {"kind": "gauss", "vseed": 78},
             "text_seed": 6, "bin": {}, "ns": 3, "n_il": 262, "n_xl": 259, "il": [5, 2], "xl": [300, 1],
             "keep": [g for g in range(_GRID) if g % 97 != 13 and g < _GRID - 3], "fields": _FIELDS}

# a 2D line of 65 576 traces of 4 samples
LINE_2D = {"geom": "2d", "fmt": 5, "ext": 0, "dt_us": 4000, "delay": 0, "values": {"kind": "gauss", "vseed": 79},
           "text_seed": 7, "bin": {}, "ns": 4, "n_tr": 65576, "variant": "zero", "line": [1, 1, 1], "fields": {"21": {"kind": "vary", "seed": 16}}}

"""R-spec: an SGZ reader, writer and validator written from docs/file-specification.md, independent of
seismic_zfp's reader and writer (only libzfp, through zfpy, is shared - it is the trusted codec).

Conventions that the specification text leaves to the format version (named in property C03):
  * footer arrays are padded to a multiple of 512 bytes and bytes 68-71 hold the trace count for
    files written by versions after 0.2.1; before, arrays are contiguous and the count is n_il*n_xl;
  * the sample interval is in microseconds for versions after 0.1.6, in milliseconds before;
  * v0.0.x files carry a zero blockshape meaning 4 x 4 x (2048/rate).
Layout: the data section is the sequence of 4 KiB disk blocks ordered (il-block, xl-block, z-block),
z fastest; inside a block the 4x4x4 cells are ordered (il, xl, z), z fastest.  2D: (trace group, z)."""
import struct
import numpy as np

from . import codec

BLOCK = 4096
# the 89 SEG-Y trace header fields (start bytes) in segyio's order
FIELDS = [1, 5, 9, 13, 17, 21, 25, 29, 31, 33, 35, 37, 41, 45, 49, 53, 57, 61, 65, 69, 71, 73, 77, 81, 85, 89,
          91, 93, 95, 97, 99, 101, 103, 105, 107, 109, 111, 113, 115, 117, 119, 121, 123, 125, 127, 129, 131,
          133, 135, 137, 139, 141, 143, 145, 147, 149, 151, 153, 155, 157, 159, 161, 163, 165, 167, 169, 171,
          173, 175, 177, 179, 181, 185, 189, 193, 197, 201, 203, 205, 209, 211, 213, 215, 217, 219, 223, 225,
          229, 231]
assert len(FIELDS) == 89
# width in bytes of each field (2 or 4): distance to the next field; the last one (231) is 2 bytes
FIELD_WIDTH = {f: (FIELDS[i + 1] - f if i + 1 < len(FIELDS) else 2) for i, f in enumerate(FIELDS)}
assert set(FIELD_WIDTH.values()) == {2, 4}


def venc(major, minor, patch, released=True):
    return (major << 21) + (minor << 11) + patch * 2 + (1 if released else 0)


def vdec(e):
    return (e >> 21, (e >> 11) & 1023, (e >> 1) & 1023, bool(e & 1))


def parse_version(s):
    """'0.2.8' / '0.2.8.dev' -> encoding"""
    parts = s.split(".")
    return venc(int(parts[0]), int(parts[1]), int(parts[2]), released=len(parts) == 3)


V_0_1_6 = venc(0, 1, 6)
V_0_2_1 = venc(0, 2, 1)


def pad_to(n, m):
    return -(-n // m) * m


class SgzSpec:
    """Parsed view of a complete SGZ byte string."""

    def __init__(self, raw):
        self.raw = raw
        if len(raw) < BLOCK:
            raise ValueError("shorter than one header block")
        u = lambda o: struct.unpack_from("<I", raw, o)[0]
        i = lambda o: struct.unpack_from("<i", raw, o)[0]
        d = lambda o: struct.unpack_from("<d", raw, o)[0]
        self.n_header_blocks = u(0)
        self.n_samples, self.n_xl, self.n_il = u(4), u(8), u(12)
        self.z0, self.xl0, self.il0 = i(16), i(20), i(24)
        self.dz, self.dxl, self.dil = i(28), i(32), i(36)
        b = i(40)
        self.rate_code = b
        self.rate = b if b > 0 else (1.0 / (-b) if b < 0 else 0)
        self.blockshape = (u(44), u(48), u(52))
        self.n_diskblocks, self.array_len, self.n_arrays, self.tracecount_field = u(56), u(60), u(64), u(68)
        self.version = u(72)
        self.source_code, self.detection_code = u(76), u(80)
        self.z0_f64, self.dz_f64 = d(84), d(92)
        self.hash = raw[960:980]
        self.table = [struct.unpack_from("<iii", raw, 980 + 12 * k) for k in range(89)]
        if (self.blockshape[0] == 0 or self.blockshape[1] == 0) and self.blockshape[2] == 0:
            self.blockshape = (4, 4, int(2048 // self.rate))
        self.is_2d = self.blockshape[0] == 1
        self.data_start = BLOCK * self.n_header_blocks
        self.footer_start = self.data_start + BLOCK * self.n_diskblocks
        new = self.version > V_0_2_1
        self.stride = pad_to(self.array_len, 512) if new else self.array_len
        if self.is_2d:
            self.tracecount = self.tracecount_field
            self.padded = (1, pad_to(self.tracecount, self.blockshape[1]), pad_to(self.n_samples, self.blockshape[2]))
        else:
            self.tracecount = self.tracecount_field if new else self.n_il * self.n_xl
            self.padded = (pad_to(self.n_il, self.blockshape[0]), pad_to(self.n_xl, self.blockshape[1]),
                           pad_to(self.n_samples, self.blockshape[2]))
        self.segy_text = raw[BLOCK:BLOCK + 3200]
        self.segy_bin = raw[BLOCK + 3200:BLOCK + 3600]

    # ---- axes
    def samples(self):
        if self.dz_f64 != 0:
            step, z0 = self.dz_f64 / 1000.0, self.z0_f64
        else:
            step = self.dz / 1000.0 if (self.version > V_0_1_6 or self.is_2d) else float(self.dz)
            z0 = self.z0
        return z0 + step * np.arange(self.n_samples, dtype=np.float64)

    def ilines(self):
        return self.il0 + self.dil * np.arange(self.n_il, dtype=np.int64)

    def xlines(self):
        return self.xl0 + self.dxl * np.arange(self.n_xl, dtype=np.int64)

    # ---- samples
    def cell_bytes(self):
        return int((16 if self.is_2d else 64) * self.rate) // 8

    def _cell(self, off, shape):
        nb = self.cell_bytes()
        buf = self.raw[off:off + nb]
        if len(buf) != nb:
            raise ValueError("cell beyond end of file")
        return codec.decompress(buf + bytes(16), shape, self.rate)

    def volume_cells(self):
        """Decode every cell on its own from the offset the layout implies (slow, fully independent)."""
        bs, P = self.blockshape, self.padded
        cb = self.cell_bytes()
        if self.is_2d:
            nb = (P[1] // bs[1], P[2] // bs[2])
            cpb = (bs[1] // 4, bs[2] // 4)
            out = np.empty((P[1], P[2]), dtype=np.float32)
            for bx in range(nb[0]):
                for bz in range(nb[1]):
                    boff = self.data_start + BLOCK * (bx * nb[1] + bz)
                    for cx in range(cpb[0]):
                        for cz in range(cpb[1]):
                            x0, z0 = bx * bs[1] + 4 * cx, bz * bs[2] + 4 * cz
                            out[x0:x0 + 4, z0:z0 + 4] = self._cell(boff + (cx * cpb[1] + cz) * cb, (4, 4))
            return out[:self.tracecount, :self.n_samples]
        nb = [P[k] // bs[k] for k in range(3)]
        cpb = [bs[k] // 4 for k in range(3)]
        out = np.empty(P, dtype=np.float32)
        for bi in range(nb[0]):
            for bx in range(nb[1]):
                for bz in range(nb[2]):
                    boff = self.data_start + BLOCK * ((bi * nb[1] + bx) * nb[2] + bz)
                    for ci in range(cpb[0]):
                        for cx in range(cpb[1]):
                            for cz in range(cpb[2]):
                                c = (ci * cpb[1] + cx) * cpb[2] + cz
                                i0, x0, z0 = bi * bs[0] + 4 * ci, bx * bs[1] + 4 * cx, bz * bs[2] + 4 * cz
                                out[i0:i0 + 4, x0:x0 + 4, z0:z0 + 4] = self._cell(boff + c * cb, (4, 4, 4))
        return out[:self.n_il, :self.n_xl, :self.n_samples]

    def volume(self, padded=False):
        """Block-wise decode (one libzfp call per disk block): same result as volume_cells, faster."""
        bs, P = self.blockshape, self.padded
        if self.is_2d:
            nb = (P[1] // bs[1], P[2] // bs[2])
            out = np.empty((P[1], P[2]), dtype=np.float32)
            for bx in range(nb[0]):
                for bz in range(nb[1]):
                    off = self.data_start + BLOCK * (bx * nb[1] + bz)
                    buf = self.raw[off:off + BLOCK]
                    if len(buf) != BLOCK:
                        raise ValueError("block beyond end of file")
                    out[bx * bs[1]:(bx + 1) * bs[1], bz * bs[2]:(bz + 1) * bs[2]] = \
                        codec.decompress(buf, (bs[1], bs[2]), self.rate)
            return out if padded else out[:self.tracecount, :self.n_samples]
        nb = [P[k] // bs[k] for k in range(3)]
        out = np.empty(P, dtype=np.float32)
        for bi in range(nb[0]):
            for bx in range(nb[1]):
                for bz in range(nb[2]):
                    off = self.data_start + BLOCK * ((bi * nb[1] + bx) * nb[2] + bz)
                    buf = self.raw[off:off + BLOCK]
                    if len(buf) != BLOCK:
                        raise ValueError("block beyond end of file")
                    out[bi * bs[0]:(bi + 1) * bs[0], bx * bs[1]:(bx + 1) * bs[1], bz * bs[2]:(bz + 1) * bs[2]] = \
                        codec.decompress(buf, bs, self.rate)
        return out if padded else out[:self.n_il, :self.n_xl, :self.n_samples]

    # ---- headers
    def owners(self):
        """Field codes that own a footer array, in table (= footer) order."""
        return [r[0] for r in self.table if r[0] in FIELD_WIDTH and r[1] == 0 and r[2] == r[0]]

    def array(self, k):
        off = self.footer_start + k * self.stride
        buf = self.raw[off:off + self.array_len]
        if len(buf) != self.array_len:
            raise ValueError(f"footer array {k} beyond end of file")
        return np.frombuffer(buf, dtype="<i4")

    def grid_traces(self):
        return self.array_len // 4

    def header_columns(self):
        """dict field code -> int (constant) or ndarray over grid positions."""
        owners = self.owners()
        arrays = {code: self.array(k) for k, code in enumerate(owners)}
        cols = {f: 0 for f in FIELDS}   # fields the table does not name (v0.0.x: empty table) are zero
        for code, const, dup in self.table:
            if code not in FIELD_WIDTH:
                continue
            if const != 0 or dup == 0:
                cols[code] = const
            elif dup in arrays:
                cols[code] = arrays[dup]
            else:
                raise ValueError(f"table row {code} points at {dup}, which owns no array")
        return cols

    def population(self):
        """Grid positions holding a trace, in trace order.  Structured: all.  Irregular files: the
        positions whose stored inline number is non-zero (library convention for irregular grids)."""
        n = self.grid_traces()
        if self.is_2d or self.tracecount == n:
            return np.arange(n)
        cols = self.header_columns()
        il = cols[189]
        if isinstance(il, int):
            raise ValueError("irregular file without stored inline numbers")
        return np.nonzero(il != 0)[0]

    def trace_header(self, i, cols=None, pop=None):
        cols = self.header_columns() if cols is None else cols
        pop = self.population() if pop is None else pop
        g = int(pop[i])
        return {code: (int(v) if isinstance(v, int) else int(v[g])) for code, v in cols.items()}


# --------------------------------------------------------------------------------------------------
def validate(raw, expect=None):
    """Conformance of a complete file to the specification.  Returns a list of problems (empty = ok).
    `expect`: optional dict of truths of the writing stage (dims, axes, rate, blockshape, tracecount,
    n_arrays, version, source_code, detection_code)."""
    probs = []
    try:
        s = SgzSpec(raw)
    except Exception as e:
        return [f"unparseable header: {e}"]
    if s.n_header_blocks != 2:
        probs.append(f"header blocks {s.n_header_blocks} != 2")
    if s.rate not in (0.25, 0.5, 1, 2, 4, 8, 16, 32):
        probs.append(f"rate {s.rate} not a supported bit rate")
        return probs
    bs = s.blockshape
    if any(b <= 0 for b in bs):
        probs.append(f"blockshape {bs}")
        return probs
    if bs[0] * bs[1] * bs[2] * s.rate != BLOCK * 8:
        probs.append(f"block of {bs} at {s.rate} bits is {bs[0]*bs[1]*bs[2]*s.rate/8} bytes, not 4096")
    if any(b % 4 for b in (bs[1:] if s.is_2d else bs)):
        probs.append(f"blockshape {bs} not multiples of 4")
    P = s.padded
    want_blocks = P[0] * P[1] * P[2] * s.rate / 8 / BLOCK
    if want_blocks != s.n_diskblocks:
        probs.append(f"disk blocks stated {s.n_diskblocks}, padded voxels x bits / 8 / 4096 = {want_blocks}")
    grid = s.tracecount if s.is_2d else s.n_il * s.n_xl
    if s.array_len != 4 * grid:
        probs.append(f"array length {s.array_len} != 4 x {grid} grid traces")
    if not s.is_2d and s.tracecount > grid:
        probs.append(f"trace count {s.tracecount} exceeds grid {grid}")
    codes = [r[0] for r in s.table]
    if codes != FIELDS:
        probs.append("header table rows are not the 89 SEG-Y fields in order")
    owners = s.owners()
    if len(owners) != s.n_arrays:
        probs.append(f"table names {len(owners)} stored arrays, header states {s.n_arrays}")
    for code, const, dup in s.table:
        if dup != 0 and dup != code and dup not in owners:
            probs.append(f"row {code} duplicates {dup} which owns no array")
        if dup != 0 and const != 0:
            probs.append(f"row {code} has both a constant {const} and an array reference {dup}")
    end_min = s.footer_start + (max(s.n_arrays - 1, 0) * s.stride + s.array_len if s.n_arrays else 0)
    end_max = s.footer_start + s.n_arrays * s.stride
    if not (len(raw) == end_min or len(raw) == end_max):
        probs.append(f"file length {len(raw)} is neither {end_min} nor {end_max} "
                     f"(header {s.data_start} + data {BLOCK*s.n_diskblocks} + {s.n_arrays} arrays of "
                     f"{s.array_len} at stride {s.stride})")
    if expect:
        chk = [("n_il", s.n_il), ("n_xl", s.n_xl), ("n_samples", s.n_samples), ("rate", s.rate),
               ("blockshape", tuple(s.blockshape)), ("tracecount", s.tracecount), ("n_arrays", s.n_arrays),
               ("version", s.version), ("source_code", s.source_code), ("detection_code", s.detection_code)]
        for k, got in chk:
            if k in expect and expect[k] is not None:
                w = expect[k]
                w = tuple(w) if isinstance(w, (list, tuple)) else w
                if got != w:
                    probs.append(f"header states {k}={got}, truth is {w}")
        for k, got in (("ilines", s.ilines), ("xlines", s.xlines)):
            if k in expect and expect[k] is not None and not s.is_2d:
                g = got()
                if len(g) != len(expect[k]) or not np.array_equal(g, np.asarray(expect[k], dtype=np.int64)):
                    probs.append(f"header {k} {g[:6]}.. != truth {np.asarray(expect[k])[:6]}..")
        if expect.get("samples") is not None:
            g = s.samples()
            w = np.asarray(expect["samples"], dtype=np.float64)
            if len(g) != len(w) or not np.allclose(g, w, rtol=1e-12, atol=1e-9):
                probs.append(f"header samples {g[:4]}.. != truth {w[:4]}..")
    return probs


# --------------------------------------------------------------------------------------------------
def write_sgz(data, rate, blockshape, version=venc(0, 2, 8), ilines=None, xlines=None, z0=0, dz_us=4000,
              arrays=None, constants=None, dups=None, tracecount=None, segy_header=None, hash_bytes=None,
              pad="edge", source_code=0, detection_code=0, zero_blockshape=False, pad_last_array=True,
              f64_axis=None):
    """Reference writer.  data: 3D (n_il,n_xl,n_s) or 2D (n_traces,n_s) float32.  Returns bytes.
    arrays: ordered dict code -> int32 array over the grid (3D: n_il*n_xl, 2D: n_traces).
    The conventions of `version` are applied (footer stride, trace-count field, interval unit)."""
    data = np.ascontiguousarray(data, dtype=np.float32)
    is_2d = data.ndim == 2
    arrays = dict(arrays or {})
    constants = dict(constants or {})
    dups = dict(dups or {})
    hdr = bytearray(2 * BLOCK)
    P = struct.pack_into
    P("<I", hdr, 0, 2)
    bs = tuple(blockshape)
    new = version > V_0_2_1
    if is_2d:
        n_tr, n_s = data.shape
        assert bs[0] == 1
        ext = codec.extend(data, (bs[1], bs[2]), pad)
        blocks = []
        for bx in range(ext.shape[0] // bs[1]):
            for bz in range(ext.shape[1] // bs[2]):
                blocks.append(codec.compress(ext[bx * bs[1]:(bx + 1) * bs[1], bz * bs[2]:(bz + 1) * bs[2]], rate))
        grid = n_tr
        P("<I", hdr, 4, n_s)
        tc = n_tr
    else:
        n_il, n_xl, n_s = data.shape
        ext = codec.extend(data, bs, pad)
        blocks = []
        for bi in range(ext.shape[0] // bs[0]):
            for bx in range(ext.shape[1] // bs[1]):
                for bz in range(ext.shape[2] // bs[2]):
                    blocks.append(codec.compress(ext[bi * bs[0]:(bi + 1) * bs[0], bx * bs[1]:(bx + 1) * bs[1],
                                                     bz * bs[2]:(bz + 1) * bs[2]], rate))
        grid = n_il * n_xl
        ilines = np.arange(n_il) if ilines is None else np.asarray(ilines)
        xlines = np.arange(n_xl) if xlines is None else np.asarray(xlines)
        P("<I", hdr, 4, n_s)
        P("<I", hdr, 8, n_xl)
        P("<I", hdr, 12, n_il)
        P("<i", hdr, 20, int(xlines[0]))
        P("<i", hdr, 24, int(ilines[0]))
        P("<i", hdr, 32, int(xlines[1] - xlines[0]) if n_xl > 1 else 1)
        P("<i", hdr, 36, int(ilines[1] - ilines[0]) if n_il > 1 else 1)
        tc = grid if tracecount is None else tracecount
    for b in blocks:
        assert len(b) == BLOCK, len(b)
    P("<i", hdr, 16, int(z0))
    P("<i", hdr, 28, int(dz_us) if (version > V_0_1_6 or is_2d) else int(dz_us // 1000))
    P("<i", hdr, 40, int(rate) if rate >= 1 else -int(round(1 / rate)))
    if zero_blockshape:
        P("<III", hdr, 44, 0, 0, 0)
    else:
        P("<III", hdr, 44, *bs)
    P("<I", hdr, 56, len(blocks))
    P("<I", hdr, 60, 4 * grid)
    P("<I", hdr, 64, len(arrays))
    if new or is_2d:
        P("<I", hdr, 68, tc)
    P("<I", hdr, 72, version)
    P("<I", hdr, 76, source_code)
    P("<I", hdr, 80, detection_code)
    if f64_axis is not None:
        P("<d", hdr, 84, float(f64_axis[0]))
        P("<d", hdr, 92, float(f64_axis[1]))
    if hash_bytes is not None:
        hdr[960:980] = hash_bytes
    for k, code in enumerate(FIELDS):
        if code in arrays:
            row = (code, 0, code)
        elif code in dups:
            row = (code, 0, dups[code])
        else:
            row = (code, int(constants.get(code, 0)), 0)
        P("<iii", hdr, 980 + 12 * k, *row)
    if segy_header is not None:
        hdr[BLOCK:BLOCK + len(segy_header)] = segy_header
    out = bytearray(hdr)
    for b in blocks:
        out += b
    keys = [c for c in FIELDS if c in arrays]
    for j, code in enumerate(keys):
        a = np.asarray(arrays[code]).astype("<i4").ravel()
        assert a.size == grid
        b = a.tobytes()
        out += b
        if new and (pad_last_array or j + 1 < len(keys)):
            out += bytes(-len(b) % 512)
    return bytes(out)

"""Instrumented storage back-ends (local file object and blob stand-in) and the R-model of which
4 KiB blocks a read call needs."""
import io
import threading

import numpy as np

from . import ops
from .spec import BLOCK


class IOFault(OSError):
    pass


class ServiceFault(RuntimeError):
    """What a storage SDK raises for a failed request (azure's HttpResponseError is no OSError)."""


class PlainFault(Exception):
    pass


FAULT_CLASSES = {"exception": IOFault, "exception-service": ServiceFault, "exception-plain": PlainFault}


def _planned(plan, k, offset, length):
    """Fault planned for this read: plans are keyed by read index k or by (offset, length) (consumed once)."""
    if not plan:
        return None
    if k in plan:
        return plan[k]
    key = (offset, length)
    if key in plan:
        return plan.pop(key)
    return None


class CompletionController:
    """Owns the completion order of concurrent blob range reads: a request completes only when it has
    the lowest drawn rank among the requests currently waiting and every request that can be
    outstanding (min(workers, remaining)) has arrived.  One completion at a time."""
    def __init__(self, ranks, total, workers=20):
        self.ranks = list(ranks)
        self.total = total
        self.workers = workers
        self.cv = threading.Condition()
        self.waiting = {}
        self.completed = 0
        self.order = []
        self.inflight = None
        self.last_arrival = 0.0

    def rank(self, k):
        return (self.ranks[(k - 1) % len(self.ranks)] if self.ranks else 0, k)

    def wait_turn(self, k, late=False):
        import time
        with self.cv:
            self.waiting[k] = (10 ** 9, k) if late else self.rank(k)
            self.last_arrival = time.time()
            self.cv.notify_all()
            while True:
                expected = min(self.workers, max(1, self.total - self.completed))
                # all requests that can be outstanding have arrived, or arrivals have gone quiet (calls that
                # read sequentially never have more than one outstanding); the clock only keeps the
                # harness live, it is no part of the oracle
                full = len(self.waiting) >= expected or time.time() - self.last_arrival > 0.03
                mine = min(self.waiting.values()) == self.waiting[k]
                if self.inflight is None and mine and full:
                    self.inflight = k
                    del self.waiting[k]
                    self.order.append(k)
                    return
                self.cv.wait(0.01)

    def done(self, k):
        with self.cv:
            if self.inflight == k:
                self.inflight = None
            self.completed += 1
            self.cv.notify_all()


class CountingFile:
    """A file object for SgzReader(file): logs every range read; can inject faults."""
    def __init__(self, path, name=None):
        self._f = open(path, "rb")
        self.name = name or path
        self.log = []          # (offset, requested, returned)
        self._pos = 0
        self.plan = None       # fault plan: dict k (1-based read index, counted from arm()) -> kind
        self._n = 0
        self.lock = threading.Lock()

    def arm(self, plan=None):
        self.log = []
        self._n = 0
        self.plan = plan

    def seek(self, offset, whence=0):
        self._pos = self._f.seek(offset, whence)
        return self._pos

    def tell(self):
        return self._pos

    def read(self, length=-1):
        with self.lock:
            self._n += 1
            k = self._n
            off = self._pos
            self._f.seek(off)
            data = self._f.read(length)
            kind = _planned(self.plan, k, off, length)
            # the file position moves by what the read delivered, as with a real descriptor: not at all
            # for a failed or empty read, by the prefix length for a short one
            if kind in FAULT_CLASSES:
                self.log.append((off, length, -1))
                raise FAULT_CLASSES[kind](f"injected read failure at read #{k} (offset {off}, length {length})")
            if kind == "empty":
                data = b""
            elif isinstance(kind, (list, tuple)) and kind[0] == "short":
                data = data[:max(0, min(len(data) - 1, int(kind[1] * len(data))))]
            self._pos = off + len(data)
            self.log.append((off, length, len(data)))
            return data

    def readinto(self, b):
        """The other way of reading a binary file object: same log, same faults, same position rules."""
        data = self.read(len(b))
        b[:len(data)] = data
        return len(data)

    def close(self):
        self._f.close()


class _Downloader:
    def __init__(self, fn):
        self._fn = fn

    def readall(self):
        return self._fn()


class CountingBlob:
    """Stand-in for an azure BlobClient: download_blob(offset, length).readall(), blob_name."""
    def __init__(self, path, controller=None, latency=0.0, fault_last=False):
        self.blob_name = path
        self.fault_last = fault_last    # a request that is going to fail completes after every other one
        self._path = path
        # a remote read takes time: with a non-zero latency concurrent requests really overlap (nothing is
        # decided by the clock; it only widens the window in which unsynchronised workers can interleave)
        self.latency = latency
        self.log = []
        self.plan = None
        self._n = 0
        self.lock = threading.Lock()
        self.controller = controller    # optional completion-order controller

    def arm(self, plan=None):
        with self.lock:
            self.log = []
            self._n = 0
            self.plan = plan

    def download_blob(self, offset=0, length=None):
        with self.lock:
            self._n += 1
            k = self._n

        def fetch():
            if self.controller is not None:
                with self.lock:
                    late = self.fault_last and bool(self.plan) and (k in self.plan or (offset, length) in self.plan)
                self.controller.wait_turn(k, late=late)
            with open(self._path, "rb") as f:
                f.seek(offset)
                data = f.read(length)
            if self.latency:
                import time
                time.sleep(self.latency)
            with self.lock:
                kind = _planned(self.plan, k, offset, length)
            if self.controller is not None:
                self.controller.done(k)
            if kind in FAULT_CLASSES:
                with self.lock:
                    self.log.append((offset, length, -1))
                raise FAULT_CLASSES[kind](f"injected blob failure at request #{k} (offset {offset}, length {length})")
            if kind == "empty":
                data = b""
            elif isinstance(kind, (list, tuple)) and kind[0] == "short":
                data = data[:max(0, min(len(data) - 1, int(kind[1] * len(data))))]
            with self.lock:
                self.log.append((offset, length, len(data)))
            return data
        return _Downloader(fetch)

    def close(self):
        pass


# --------------------------------------------------------------------------------------------------
def box_blocks(T, box):
    """Linear ids of the data-section blocks intersecting a box ((i0,i1),(x0,x1),(z0,z1)); 2D: ((t0,t1),(z0,z1))."""
    s = T.s
    bs = s.blockshape
    if T.is_2d:
        nb = (s.padded[1] // bs[1], s.padded[2] // bs[2])
        (t0, t1), (z0, z1) = box
        return {bx * nb[1] + bz for bx in range(t0 // bs[1], (t1 - 1) // bs[1] + 1)
                for bz in range(z0 // bs[2], (z1 - 1) // bs[2] + 1)}
    nb = [s.padded[k] // bs[k] for k in range(3)]
    (i0, i1), (x0, x1), (z0, z1) = box
    return {(bi * nb[1] + bx) * nb[2] + bz for bi in range(i0 // bs[0], (i1 - 1) // bs[0] + 1)
            for bx in range(x0 // bs[1], (x1 - 1) // bs[1] + 1) for bz in range(z0 // bs[2], (z1 - 1) // bs[2] + 1)}


def need(T, op):
    """('data', set of block ids) | ('footer', list of (start, stop) byte ranges)."""
    m, a = op["m"], op["a"]
    s = T.s
    if m == "meta":
        return "footer", []     # hash, file headers, counts and axes come from the header blocks read at open
    if m in ("gen_trace_header", "gen_trace_header_all", "header", "get_tracefield_values", "attributes"):
        arrays = [(s.footer_start + k * s.stride, s.footer_start + k * s.stride + s.array_len) for k in range(s.n_arrays)]
        if m in ("get_tracefield_values", "attributes"):
            from .ops import field_owner
            own = field_owner(T, a[0])
            return "footer", ([arrays[T.owners.index(own)]] if own is not None else [])
        if m in ("gen_trace_header", "header") and T.structured and not T.is_2d:
            # a regular file: 4 bytes per stored array, at the trace's slot
            g = a[0]
            return "footer-exact", [(lo + 4 * g, lo + 4 * g + 4) for lo, hi in arrays]
        return "footer", arrays
    if T.is_2d:
        n_s = T.n_s
        if m in ("get_trace", "trace"):
            return "data", box_blocks(T, ((a[0], a[0] + 1), (0, n_s)))
        if m == "get_trace_window":
            return "data-subset", box_blocks(T, ((a[0], a[0] + 1), (0, n_s)))
        if m == "read_subplane":
            return "data", box_blocks(T, ((a[0], a[1]), (a[2], a[3])))
    n_il, n_xl, n_s = T.n_il, T.n_xl, T.n_s
    full = ((0, n_il), (0, n_xl), (0, n_s))
    if m == "iline_slice":
        return "data", box_blocks(T, ((a[0], a[1]), full[1], full[2]))
    if m == "xline_slice":
        return "data", box_blocks(T, (full[0], (a[0], a[1]), full[2]))
    if m in ("read_inline", "read_inline_number", "iline"):
        return "data", box_blocks(T, ((a[0], a[0] + 1), full[1], full[2]))
    if m in ("read_crossline", "read_crossline_number", "xline"):
        return "data", box_blocks(T, (full[0], (a[0], a[0] + 1), full[2]))
    if m in ("read_zslice", "read_zslice_coord", "depth_slice"):
        return "data", box_blocks(T, (full[0], full[1], (a[0], a[0] + 1)))
    if m in ("read_subvolume", "subvolume_acc", "xarray"):
        return "data", box_blocks(T, ((a[0], a[1]), (a[2], a[3]), (a[4], a[5])))
    if m in ("read_volume", "tools.cube"):
        return "data", box_blocks(T, full)
    if m in ("get_trace", "trace", "get_trace_window", "get_trace_by_coord"):
        g = int(T.pop[a[0]])
        i, x = divmod(g, n_xl)
        z = (a[1], a[2]) if len(a) == 3 else (0, n_s)
        return "data", box_blocks(T, ((i, i + 1), (x, x + 1), z))
    if m in ("cdiag", "adiag"):
        pos = ops.cdiag_positions(a[0], n_il, n_xl) if m == "cdiag" else ops.adiag_positions(a[0], n_il, n_xl)
        if "crop" in op:
            pos = pos[op["crop"][0]:op["crop"][1]]
        z = tuple(op.get("win", [0, n_s]))
        out = set()
        for i, x in pos:
            out |= box_blocks(T, ((i, i + 1), (x, x + 1), z))
        return "data", out
    raise ValueError(m)


def analyse(T, log):
    """Split a read log into data-section blocks touched, bytes outside, double reads."""
    s = T.s
    data_lo, data_hi = s.data_start, s.footer_start
    touched, outside, footer = set(), [], []
    seen = []
    double = []
    for off, req, ret in log:
        n = req
        lo, hi = off, off + n
        for (a, b) in seen:
            if lo < b and a < hi:
                double.append((off, req))
                break
        seen.append((lo, hi))
        # data section part
        dlo, dhi = max(lo, data_lo), min(hi, data_hi)
        if dlo < dhi:
            touched |= set(range((dlo - data_lo) // BLOCK, (dhi - 1 - data_lo) // BLOCK + 1))
        if lo < data_lo:
            outside.append(("header", off, req))
        if hi > data_hi:
            footer.append((max(lo, data_hi), hi))
    return touched, outside, footer, double

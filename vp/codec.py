"""R-codec: libzfp applied by the harness.  Fixed-rate ZFP codes every 4^d cell independently and
deterministically, so the decoded value of a voxel is a pure function of (its cell's content, rate)."""
import numpy as np
import zfpy

ZT = zfpy.dtype_to_ztype(np.dtype("float32"))
RATES = [0.25, 0.5, 1, 2, 4, 8, 16, 32]


def pad_to(n, m):
    return -(-n // m) * m


def extend(a, multiple=4, mode="edge"):
    """Extend every axis of `a` to a multiple of `multiple` (edge replication or zeros)."""
    if isinstance(multiple, int):
        multiple = (multiple,) * a.ndim
    p = [(0, pad_to(n, m) - n) for n, m in zip(a.shape, multiple)]
    if mode == "edge":
        return np.pad(a, p, "edge")
    return np.pad(a, p, "constant", constant_values=0)


def compress(a, rate):
    return bytes(zfpy.compress_numpy(np.ascontiguousarray(a, dtype=np.float32), rate=rate, write_header=False))


def decompress(buf, shape, rate):
    return zfpy._decompress(bytes(buf), ZT, tuple(shape), rate=rate)


def image(a, rate, mode="edge"):
    """ZFP fixed-rate image of `a` extended to multiples of 4, cropped back to a.shape."""
    a = np.ascontiguousarray(a, dtype=np.float32)
    ap = extend(a, 4, mode)
    d = decompress(compress(ap, rate), ap.shape, rate)
    return d[tuple(slice(0, n) for n in a.shape)]


def bits_equal(a, b):
    """Bit-for-bit equality of two float32 arrays (distinguishes -0.0 from 0.0, equal NaNs equal)."""
    a = np.ascontiguousarray(a, dtype=np.float32)
    b = np.ascontiguousarray(b, dtype=np.float32)
    return a.shape == b.shape and np.array_equal(a.view(np.uint32), b.view(np.uint32))


def first_diff(a, b):
    a = np.asarray(a)
    b = np.asarray(b)
    if a.shape != b.shape:
        return f"shape {a.shape} vs {b.shape}"
    af = np.ascontiguousarray(a, dtype=np.float32).view(np.uint32)
    bf = np.ascontiguousarray(b, dtype=np.float32).view(np.uint32)
    idx = np.argwhere(af != bf)
    if len(idx) == 0:
        return "equal"
    i = tuple(int(v) for v in idx[0])
    return f"{len(idx)} of {a.size} differ; first at {i}: got {a[i]!r} want {b[i]!r}"

"""Stage model for writer outputs: what a file produced by a writer must contain, and the comparison
of an actual file against it through (a) the spec validator, (b) the independent spec reader and
(c) the library's own reader."""
import numpy as np

from . import codec, conv, spec
from .core import Violation
from .spec import FIELDS


class Stage:
    """Truth of one produced file.
    vol: expected decoded real volume (3D grid volume, or 2D section), compared bit for bit
    il, xl: int arrays (3D); samples: float array (ms)
    headers: list (trace order) of dict field->int, or None when not asserted
    pos: grid positions of the traces (3D) ; tracecount
    """
    def __init__(self, **kw):
        self.vol = kw["vol"]
        self.is_2d = self.vol.ndim == 2
        self.il, self.xl = kw.get("il"), kw.get("xl")
        self.samples = np.asarray(kw["samples"], dtype=np.float64)
        self.headers = kw.get("headers")
        self.pos = kw.get("pos")
        self.tracecount = kw["tracecount"]
        self.rate, self.bs = kw["rate"], tuple(kw["bs"])
        self.versions = kw.get("versions")            # acceptable version stamps (encodings)
        self.source_code = kw.get("source_code")
        self.detection_code = kw.get("detection_code")
        self.segy_header = kw.get("segy_header")
        self.hash = kw.get("hash")
        self.stored_fields = kw.get("stored_fields")   # exact set of stored arrays when known


def check_file(path, st, what="file", use_library=True):
    """Everything C03 asks of one produced file."""
    raw = conv.read_bytes(path)
    expect = {"n_samples": len(st.samples), "rate": st.rate, "blockshape": st.bs, "tracecount": st.tracecount,
              "source_code": st.source_code, "detection_code": st.detection_code, "samples": st.samples}
    if not st.is_2d:
        expect.update(n_il=len(st.il), n_xl=len(st.xl), ilines=st.il, xlines=st.xl)
    probs = spec.validate(raw, expect)
    s = spec.SgzSpec(raw)
    if st.versions is not None and s.version not in st.versions:
        probs.append(f"version stamp {spec.vdec(s.version)} not among {[spec.vdec(v) for v in st.versions]}")
    if st.is_2d:
        if s.blockshape[0] != 1:
            probs.append("2D file with blockshape[0] != 1")
        if any(raw[a:b] != bytes(b - a) for a, b in ((8, 16), (20, 28), (32, 40))):
            probs.append("2D file with 3D geometry bytes set")
    if st.segy_header is not None and raw[4096:4096 + 3600] != st.segy_header:
        probs.append("bytes 4096-7695 differ from the SEG-Y file header")
    if st.hash is not None and s.hash != st.hash:
        probs.append(f"hash bytes {s.hash.hex()} != {st.hash.hex()}")
    if probs:
        raise Violation(f"nonconformant:{what}", "; ".join(probs[:4]))
    # (b) a decoder written from the specification alone reads every sample and header
    try:
        v = s.volume()
    except Exception as e:
        raise Violation(f"spec-decode-failed:{what}", repr(e))
    if not codec.bits_equal(v, st.vol):
        raise Violation(f"spec-decode-samples:{what}", codec.first_diff(v, st.vol))
    if st.headers is not None:
        try:
            cols = s.header_columns()
            pop = s.population()
        except Exception as e:
            raise Violation(f"spec-decode-headers-failed:{what}", repr(e))
        if len(pop) != st.tracecount:
            raise Violation(f"spec-decode-population:{what}", f"{len(pop)} populated positions, {st.tracecount} traces")
        if st.pos is not None and not st.is_2d and list(pop) != list(st.pos):
            raise Violation(f"spec-decode-population:{what}", f"positions {list(pop)[:8]} != {list(st.pos)[:8]}")
        for i in range(st.tracecount):
            h = s.trace_header(i, cols, pop)
            for f in FIELDS:
                if h[f] != st.headers[i][f]:
                    raise Violation(f"spec-decode-header:{what}", f"trace {i} field {f}: file holds {h[f]}, truth {st.headers[i][f]}")
    if st.stored_fields is not None and sorted(s.owners()) != sorted(st.stored_fields):
        raise Violation(f"stored-arrays:{what}", f"table names {sorted(s.owners())}, expected {sorted(st.stored_fields)}")
    if use_library:
        check_with_library(path, st, what)
    return s


def check_with_library(path, st, what):
    """The library's reader agrees with the stage truth (volume, axes, counts, headers)."""
    from seismic_zfp.read import SgzReader
    with SgzReader(path) as r:
        if r.tracecount != st.tracecount:
            raise Violation(f"reader-tracecount:{what}", f"{r.tracecount} != {st.tracecount}")
        if st.is_2d:
            got = np.stack([np.array(r.get_trace(i)) for i in range(st.tracecount)])
            if not codec.bits_equal(got, st.vol):
                raise Violation(f"reader-section:{what}", codec.first_diff(got, st.vol))
        else:
            structured = st.tracecount == len(st.il) * len(st.xl)
            if r.structured != structured:
                raise Violation(f"reader-structured:{what}", f"{r.structured} != {structured}")
            if not (len(r.ilines) == len(st.il) and np.array_equal(r.ilines, st.il)):
                raise Violation(f"reader-ilines:{what}", f"{r.ilines[:6]} != {np.asarray(st.il)[:6]}")
            if not (len(r.xlines) == len(st.xl) and np.array_equal(r.xlines, st.xl)):
                raise Violation(f"reader-xlines:{what}", f"{r.xlines[:6]} != {np.asarray(st.xl)[:6]}")
            got = r.read_volume()
            if not codec.bits_equal(got, st.vol):
                raise Violation(f"reader-volume:{what}", codec.first_diff(got, st.vol))
        if len(r.zslices) != len(st.samples) or not np.allclose(r.zslices, st.samples, rtol=1e-12, atol=1e-9):
            raise Violation(f"reader-samples:{what}", f"{r.zslices[:4]}..({len(r.zslices)}) != {st.samples[:4]}..({len(st.samples)})")
        if st.headers is not None:
            for i in range(st.tracecount):
                h = r.gen_trace_header(i)
                for f in FIELDS:
                    if int(h[f]) != st.headers[i][f]:
                        raise Violation(f"reader-header:{what}", f"trace {i} field {f}: got {int(h[f])}, truth {st.headers[i][f]}")
        if st.hash is not None and r.get_source_data_hash() != st.hash.hex():
            raise Violation(f"reader-hash:{what}", f"{r.get_source_data_hash()} != {st.hash.hex()}")


# ---- stage constructors -----------------------------------------------------------------------
def widen(lo, hi, b, n):
    """Box widened outward to multiples of b and clipped to [0, n]."""
    return max(lo - lo % b, 0), min(-(-hi // b) * b, n)


def crop_stage(st, box):
    """box: ((il0, il1)|None, (xl0, xl1)|None, (z0, z1)|None) in indexes, valid.  Returns (stage, widened box)."""
    n = (len(st.il), len(st.xl), len(st.samples))
    w = []
    for k in range(3):
        lo, hi = (0, n[k]) if box[k] is None else box[k]
        w.append(widen(lo, hi, st.bs[k], n[k]))
    (i0, i1), (x0, x1), (z0, z1) = w
    n_xl = n[1]
    headers = None
    if st.headers is not None:
        headers = [st.headers[i * n_xl + x] for i in range(i0, i1) for x in range(x0, x1)]
    new = Stage(vol=st.vol[i0:i1, x0:x1, z0:z1], il=np.asarray(st.il)[i0:i1], xl=np.asarray(st.xl)[x0:x1],
                samples=st.samples[z0:z1], headers=headers, pos=list(range((i1 - i0) * (x1 - x0))),
                tracecount=(i1 - i0) * (x1 - x0), rate=st.rate, bs=st.bs, versions=st.versions,
                source_code=st.source_code, detection_code=st.detection_code, hash=st.hash)
    return new, w


def reblock_stage(st):
    new = Stage(vol=st.vol, il=st.il, xl=st.xl, samples=st.samples, headers=st.headers, pos=st.pos,
                tracecount=st.tracecount, rate=st.rate, bs=(64, 64, 4), versions=st.versions,
                source_code=st.source_code, detection_code=st.detection_code, segy_header=st.segy_header, hash=st.hash)
    return new

"""Generated SEG-Y sources: regular cubes, irregular (holed) surveys and 2D lines, with arbitrary
trace-header content within field width.  A descriptor is JSON; `build` is a pure function of it."""
import os
import numpy as np
from hypothesis import strategies as st

from . import gen, sgy
from .spec import FIELDS, FIELD_WIDTH

# fields whose content defines geometry / sample axis for segyio or the converter: values are still
# generated (line numbers, interval, delay) but kept structurally valid
RESERVED = {189, 193, 37, 109, 115, 117, 215}   # 215: scalar segyio applies to the delay time
FREE_FIELDS = [f for f in FIELDS if f not in RESERVED]
# "mid": first == last, differs between; "flag": two values {0, C}; "zerofirst": varies, 0 in the first trace;
# "perline": a function of the trace's inline number (a swath number, a fold per line)
# "sameend": varies, the same value (4242) in the last trace for every field of this kind, different first values
# "constext": constant through the file at an end of the field's range (INT32_MIN, 32767, ...)
FIELD_KINDS = ["const", "vary", "dup", "extreme", "negvary", "mid", "flag", "zerofirst", "perline", "sameend", "constext"]
FREE_BIN = [3201, 3205, 3209, 3227, 3233, 3235, 3255]


@st.composite
def header_fields(draw, allow_mid=True, max_fields=8):
    """A small random population of the free trace-header fields."""
    n = draw(st.integers(0, max_fields))
    codes = draw(st.lists(st.sampled_from(FREE_FIELDS), min_size=n, max_size=n, unique=True))
    out = {}
    kinds = [k for k in FIELD_KINDS if allow_mid or k != "mid"]
    for c in sorted(codes):
        k = draw(st.sampled_from(kinds))
        d = {"kind": k, "seed": draw(st.integers(0, 2 ** 16))}
        if k == "dup":
            d["of"] = draw(st.sampled_from([189, 193] + [x for x in sorted(codes) if x < c]))
        out[str(c)] = d
    return out


def field_columns(fields, n, base):
    """Materialise header columns.  base: dict code -> array for the reserved fields."""
    cols = dict(base)
    pending = []
    for cs, d in sorted(fields.items(), key=lambda kv: int(kv[0])):
        c = int(cs)
        lo, hi = sgy.field_range(c)
        rng = np.random.Generator(np.random.PCG64(d["seed"] * 1000 + c))
        k = d["kind"]
        if k == "const":
            v = int(rng.integers(lo, hi + 1))
            cols[c] = np.full(n, v if v != 0 else 7)
        elif k in ("vary", "negvary", "extreme", "mid"):
            if k == "negvary":
                a = rng.integers(lo, 0, n)
            elif k == "extreme":
                a = rng.choice(np.array([lo, hi, lo + 1, hi - 1, 0, -1, 1]), n)
            else:
                a = rng.integers(lo, hi + 1, n)
            a = a.astype(np.int64)
            if k == "mid":
                if n >= 3:
                    a[-1] = a[0]
                    if np.all(a == a[0]):
                        a[1] = a[0] - 1 if a[0] > lo else a[0] + 1
                else:
                    a[-1] = a[0] + (1 if a[0] < hi else -1)
            elif a[0] == a[-1]:
                a[-1] = a[0] - 1 if a[0] > lo else a[0] + 1
            cols[c] = a
        elif k == "flag":
            cval = int(rng.integers(1, min(hi, 30000) + 1))
            a = np.where(rng.integers(0, 2, n) == 1, cval, 0).astype(np.int64)
            a[0], a[-1] = (0, cval) if rng.integers(0, 2) == 0 else (cval, 0)
            cols[c] = a
        elif k == "zerofirst":
            a = rng.integers(1, min(hi, 10 ** 6) + 1, n).astype(np.int64)
            a[0] = 0
            cols[c] = a
        elif k == "constext":
            cols[c] = np.full(n, [lo, hi, lo + 1, hi - 1, -1][int(rng.integers(0, 5))])
        elif k == "sameend":
            a = rng.integers(1, 4000, n).astype(np.int64)
            a[-1] = 4242
            cols[c] = a
        elif k == "perline":
            key = np.asarray(base.get(189, np.arange(n))).astype(np.int64)
            key = key if len(np.unique(key)) > 1 else np.arange(n)
            a = (np.abs(key) * 7 + int(rng.integers(1, 1000))) % min(hi, 30000)
            if a[0] == a[-1]:
                a = a.copy()
                a[-1] = a[0] + 1
            cols[c] = a.astype(np.int64)
        elif k == "dup":
            pending.append((c, int(d["of"])))
    for c, of in pending:
        if of in cols:
            src = np.asarray(cols[of]).astype(np.int64)
            lo, hi = sgy.field_range(c)
            if src.min() >= lo and src.max() <= hi:
                cols[c] = src.copy()
    return cols


def heuristic_precondition(cols, n):
    """The property's precondition for 'heuristic' detection: every field constant or first != last,
    and no two *different* fields agree on both their first and last value."""
    arrs = {c: np.broadcast_to(np.asarray(v), (n,)) for c, v in cols.items()}
    var = {}
    for c, a in arrs.items():
        if np.all(a == a[0]):
            continue
        if a[0] == a[-1]:
            return False
        var[c] = a
    seen = {}
    for c in sorted(var):
        key = (int(var[c][0]), int(var[c][-1]))
        if key in seen and not np.array_equal(var[seen[key]], var[c]):
            return False
        seen.setdefault(key, c)
    return True


@st.composite
def segy_source(draw, geom="regular", max_dim=12, max_ns=40, fields=True, allow_mid=True, ns_min=2, dims=None):
    d = {"geom": geom, "fmt": draw(st.sampled_from([1, 5])), "ext": draw(st.sampled_from([0, 0, 0, 1, 2])),
         # (700 and 1001 us are no multiples of 1/512 ms; delays beyond 16 s are where float32 milliseconds lose the microsecond)
         "dt_us": draw(st.sampled_from([4000, 2000, 1000, 500, 250, 3000, 700, 1001])),
         "delay": draw(st.sampled_from([0, 0, 0, 100, -40, 12, 20000, -25000])),
         "values": draw(gen.values_spec), "text_seed": draw(st.integers(0, 999)),
         "bin": {str(k): draw(st.integers(-2 ** 15, 2 ** 15 - 1)) for k in
                 draw(st.lists(st.sampled_from(FREE_BIN), max_size=3, unique=True))}}
    d["ns"] = draw(st.integers(ns_min, max_ns))
    if geom in ("regular", "irregular"):
        if dims is not None:
            d["n_il"], d["n_xl"] = dims
        elif geom == "regular" and draw(st.integers(0, 15)) == 11:
            # more than 256 (or 1024) lines on one axis, a handful on the other: counts pass the places where an
            # 8- or 10-bit quantity would wrap, the trace count stays small
            many = draw(st.sampled_from([256, 256, 1024])) + draw(st.integers(1, 40))
            few = draw(st.integers(2, 3))
            d["n_il"], d["n_xl"] = (many, few) if draw(st.booleans()) else (few, many)
            d["ns"] = min(d["ns"], 6)
        elif draw(st.integers(0, 7)) == 0:
            # a grid of 128*k traces: every footer array is then a whole number of 512-byte pages
            d["n_il"], d["n_xl"] = draw(st.sampled_from([(8, 16), (16, 8), (4, 32), (32, 4), (2, 64), (64, 2), (16, 16)]))
            d["ns"] = min(d["ns"], 16)
        else:
            d["n_il"] = draw(st.integers(2, max_dim))
            d["n_xl"] = draw(st.integers(2, max_dim))
        if geom == "regular":
            d["il"] = list(draw(gen.line_axis(d["n_il"])))
            d["xl"] = list(draw(gen.line_axis(d["n_xl"])))
        else:
            d["il"] = [draw(st.integers(-40, 3000)), draw(st.integers(1, 7))]
            d["xl"] = [draw(st.integers(-40, 3000)), draw(st.integers(1, 7))]
            if draw(st.integers(0, 3)) == 0:
                # negative inline numbers (all of them, or of both signs), never the number 0 itself
                # (K01: the format marks holes by inline number 0)
                step = d["il"][1]
                start = -draw(st.integers(1, 60))
                while any(start + step * i == 0 for i in range(d["n_il"])):
                    start -= 1
                d["il"] = [start, step]
            elif draw(st.integers(0, 5)) == 0:
                # six- and seven-digit line numbering (labels of 1e5 .. 4e6, where a tolerance-based or float32
                # label lookup starts to confuse neighbouring lines)
                big = st.one_of(st.integers(100_000, 4_000_000), st.integers(2 ** 24 + 1, 2 ** 31 - 100_000))   # (beyond 2^24 float32 is no longer exact)
                d["il"] = [draw(big), d["il"][1]]
                d["xl"] = [draw(big), d["xl"][1]]
            corner0 = draw(st.integers(0, 7)) == 0
            if dims is None and not corner0 and draw(st.integers(0, 7)) == 0:
                # more than 128 grid cells, at most 128 traces: a footer array (4 bytes per grid cell) and
                # "4 bytes per trace" then round to different numbers of 512-byte pages
                d["n_il"], d["n_xl"] = draw(st.sampled_from([(12, 11), (11, 12), (13, 10), (9, 15), (16, 9)]))
                d["ns"] = min(d["ns"], 10)
                d["big_grid_keep"] = draw(st.integers(118, 128))
            grid = d["n_il"] * d["n_xl"]
            # a proper subset in which every inline and crossline keeps at least one trace:
            # first one trace per line (a drawn permutation-like assignment), then a random subset
            keep = set()
            for i in range(d["n_il"]):
                keep.add(i * d["n_xl"] + draw(st.integers(0, d["n_xl"] - 1)))
            for x in range(d["n_xl"]):
                keep.add(draw(st.integers(0, d["n_il"] - 1)) * d["n_xl"] + x)
            others = [g for g in range(grid) if g not in keep]
            extra = draw(st.lists(st.sampled_from(others), unique=True, max_size=len(others))) if others else []
            keep |= set(extra)
            if len(keep) == grid:   # must be a proper subset
                cand = sorted(keep)
                # drop one position whose removal leaves its lines populated, if any
                for g in cand:
                    i, x = divmod(g, d["n_xl"])
                    if sum(1 for h in keep if h // d["n_xl"] == i) > 1 and sum(1 for h in keep if h % d["n_xl"] == x) > 1:
                        keep.discard(g)
                        break
            if d.get("big_grid_keep"):
                # keep the first cell of every inline and of every crossline, then fill up to the wanted count
                must = {i * d["n_xl"] for i in range(d["n_il"])} | set(range(d["n_xl"]))
                rest = [g for g in range(d["n_il"] * d["n_xl"]) if g not in must]
                extra = draw(st.lists(st.sampled_from(rest), unique=True, min_size=d["big_grid_keep"] - len(must),
                                      max_size=d["big_grid_keep"] - len(must)))
                keep = must | set(extra)
                d.pop("big_grid_keep")
            if corner0 and d["n_il"] >= 3:
                # crossline numbering from 0, first and last trace of the file both on crossline 0: every inline
                # but the last is complete except for one hole, the last inline holds one trace
                d["xl"] = [0, d["xl"][1]]
                keep = {i * d["n_xl"] + x for i in range(d["n_il"] - 1) for x in range(d["n_xl"])}
                h = draw(st.integers(1, d["n_xl"] - 1))
                keep.discard(1 * d["n_xl"] + h)
                if d["n_xl"] >= 3:
                    # a second hole, so that the trace count is not a whole number of inlines (K02)
                    keep.discard(1 * d["n_xl"] + (h % (d["n_xl"] - 1)) + 1 if (h % (d["n_xl"] - 1)) + 1 != h else 1 * d["n_xl"] + 1 + (h % 2))
                keep.add((d["n_il"] - 1) * d["n_xl"])
            d["keep"] = sorted(keep)
    else:
        d["n_tr"] = draw(st.one_of(st.integers(2, max_dim * max_dim), st.integers(2, max_dim * max_dim), st.sampled_from([127, 128, 129, 256])))
        d["variant"] = draw(st.sampled_from(["zero", "single_il", "single_xl"]))
        d["line"] = [draw(st.integers(1, 3000)), draw(st.integers(-50, 3000)), draw(st.sampled_from([1, 2, 5]))]
    d["fields"] = draw(header_fields(allow_mid=allow_mid)) if fields else {}
    return d


def text_header(seed):
    """3200 ASCII characters (segyio stores them as EBCDIC): letters, digits, space and . - : , on which
    segyio's EBCDIC table and cp037 agree."""
    rng = np.random.Generator(np.random.PCG64(seed))
    alphabet = np.frombuffer(b"ABCDEFGHIJKLMNOPQRSTUVWXYZabcdefghijklmnopqrstuvwxyz0123456789 .-:", dtype=np.uint8)
    return bytes(rng.choice(alphabet, 3200).astype(np.uint8))


class Source:
    pass


def build(desc, d, name="src.sgy"):
    """Write the SEG-Y described by `desc`; return a Source with the independent truth (what segyio
    reads back from the file: traces, headers, axes)."""
    geom = desc["geom"]
    ns, dt_us = desc["ns"], desc["dt_us"]
    S = Source()
    S.desc = desc
    grid = None
    if geom in ("regular", "irregular"):
        n_il, n_xl = desc["n_il"], desc["n_xl"]
        il = gen.axis_values(*desc["il"], n_il)
        xl = gen.axis_values(*desc["xl"], n_xl)
        S.grid_il, S.grid_xl = il, xl
        cube = gen.make_values((n_il, n_xl, ns), desc["values"]["kind"], desc["values"]["vseed"])
        if geom == "regular":
            pos = list(range(n_il * n_xl))
            grid = (il, xl)
        else:
            pos = desc["keep"]
        S.pos = pos
        traces = cube.reshape(n_il * n_xl, ns)[pos]
        n = len(pos)
        base = sgy.base_cols(n, ns, dt_us, desc["delay"])
        base[189] = np.array([il[g // n_xl] for g in pos])
        base[193] = np.array([xl[g % n_xl] for g in pos])
    else:
        n = desc["n_tr"]
        traces = gen.make_values((n, ns), desc["values"]["kind"], desc["values"]["vseed"])
        base = sgy.base_cols(n, ns, dt_us, desc["delay"])
        fixed, start, step = desc["line"]
        run = np.array(gen.axis_values(start, step, n))
        if desc["variant"] == "single_il":
            base[189], base[193] = np.full(n, fixed), run
            grid = ([fixed], list(run))
        elif desc["variant"] == "single_xl":
            base[189], base[193] = run, np.full(n, fixed)
            grid = (list(run), [fixed])
        S.pos = list(range(n))
    # where the sample interval is stated: in both headers (usual), in the trace headers only, or in the binary
    # header only -- segyio takes it from whichever is set
    bin_extra = dict(desc.get("bin") or {})
    if desc.get("dt_where") == "bin":
        base[117] = np.zeros(n, dtype=np.int64)
    elif desc.get("dt_where") == "trace":
        bin_extra.update({"3217": 0, "3219": 0})
    cols = field_columns(desc.get("fields", {}), n, base)
    path = os.path.join(d, name)
    sgy.write_segy(path, traces, cols, dt_us, fmt=desc["fmt"], grid=grid, ext_headers=desc["ext"],
                   text=text_header(desc["text_seed"]), bin_extra=bin_extra)
    S.path = path
    S.cols = cols
    S.n = n
    src = sgy.read_source(path, ignore_geometry=(geom != "regular"))
    S.traces = src["traces"]
    S.headers = src["headers"]
    S.samples = src["samples"]
    S.file_header = src["file_header"]
    S.format = src["format"]
    if geom == "regular":
        S.ilines, S.xlines = np.array(il), np.array(xl)
        S.cube = S.traces.reshape(n_il, n_xl, ns)
    S.heuristic_ok = heuristic_precondition(cols, n)
    # what segyio's cube metrics make of the file (an observation about the *input*, by the trusted
    # SEG-Y library): an irregular file can look like a regular cube to them
    import segyio
    with segyio.open(path, mode="r", strict=False) as f:
        try:
            m = f.xfd.cube_metrics(189, 193)
            S.segyio_regular = m["iline_count"] * m["xline_count"] == f.tracecount
        except RuntimeError:
            S.segyio_regular = False
    return S


def annotate(case, S):
    """Record input observations the known-findings predicates need."""
    case.setdefault("obs", {})["segyio_calls_it_regular"] = bool(S.segyio_regular)


# ---- generated ZGY sources (pyzgy's writer on openzgy; float32 annotation and sample axis) -----------
def write_zgy(path, data, il, xl, z0_ms, dz_ms):
    """il, xl = [start, step].  Returns what pyzgy reports for the written file: the *source* axes and
    samples of the ZGY route are the ones its own reader gives back."""
    import warnings
    with warnings.catch_warnings():
        warnings.simplefilter("ignore")
        import pyzgy
        from pyzgy.write import SeismicWriter
        data = np.ascontiguousarray(data, dtype=np.float32)
        with SeismicWriter(path, tuple(int(v) for v in data.shape), zstart=float(z0_ms), zinc=float(dz_ms),
                           annotstart=(int(il[0]), int(xl[0])), annotinc=(int(il[1]), int(xl[1])),
                           corners=[(1000.0, 2000.0), (1000.0, 2000.0 + 25 * (data.shape[0] - 1)),
                                    (1000.0 + 12.5 * (data.shape[1] - 1), 2000.0),
                                    (1000.0 + 12.5 * (data.shape[1] - 1), 2000.0 + 25 * (data.shape[0] - 1))]) as w:
            w.write_volume(data)
        with pyzgy.open(path) as f:
            vol = np.stack([np.array(f.read_inline(i), dtype=np.float32, copy=True) for i in range(len(f.ilines))])
            return {"ilines": np.array(f.ilines), "xlines": np.array(f.xlines), "samples": np.array(f.samples, dtype=np.float64),
                    "cube": vol}


# ---- generated VDS sources (openvds: Amplitude + Trace + SEGYTraceHeader channels, as SEGYImport lays them out)
def write_vds(path, data, il, xl, z0_ms, dz_ms):
    """il, xl = [start, step] (step > 0: a VDS axis is (min, max, count)).  Returns what pyvds reports."""
    import openvds
    import pyvds
    track_vds()
    data = np.ascontiguousarray(data, dtype=np.float32)
    n_il, n_xl, ns = data.shape
    if os.path.exists(path):
        os.remove(path)
    hdr = np.zeros((n_il, n_xl, 240), dtype=np.uint8)
    ilv = (np.int64(il[0]) + np.int64(il[1]) * np.arange(n_il)).astype(">i4")
    xlv = (np.int64(xl[0]) + np.int64(xl[1]) * np.arange(n_xl)).astype(">i4")
    hdr[:, :, 188:192] = np.frombuffer(ilv.tobytes(), dtype=np.uint8).reshape(n_il, 1, 4)
    hdr[:, :, 192:196] = np.frombuffer(xlv.tobytes(), dtype=np.uint8).reshape(1, n_xl, 4)
    hdr[:, :, 114:116] = np.frombuffer(np.array([ns], dtype=">u2").tobytes(), dtype=np.uint8)
    hdr[:, :, 116:118] = np.frombuffer(np.array([int(round(dz_ms * 1000)) & 0xFFFF], dtype=">u2").tobytes(), dtype=np.uint8)
    VL, CD = openvds.VolumeDataLayoutDescriptor, openvds.VolumeDataChannelDescriptor
    layout = VL(VL.BrickSize.BrickSize_32, 0, 0, 4, VL.LODLevels.LODLevels_None, VL.Options.Options_None)
    axes = [openvds.VolumeDataAxisDescriptor(ns, "Sample", "ms", float(z0_ms), float(z0_ms) + float(dz_ms) * (ns - 1)),
            openvds.VolumeDataAxisDescriptor(n_xl, "Crossline", "", float(xl[0]), float(xl[0] + xl[1] * (n_xl - 1))),
            openvds.VolumeDataAxisDescriptor(n_il, "Inline", "", float(il[0]), float(il[0] + il[1] * (n_il - 1)))]
    lo, hi = float(data.min()), float(data.max())
    ch = [CD(CD.Format.Format_R32, CD.Components.Components_1, "Amplitude", "", lo, hi if hi > lo else lo + 1.0),
          CD(CD.Format.Format_U8, CD.Components.Components_1, "Trace", "", 0.0, 1.0, openvds.VolumeDataMapping.PerTrace,
             CD.Flags.DiscreteData),
          CD(CD.Format.Format_U8, CD.Components.Components_1, "SEGYTraceHeader", "", 0.0, 255.0,
             openvds.VolumeDataMapping.PerTrace, 240, CD.Flags.DiscreteData, 1.0, 0.0)]
    md = openvds.MetadataContainer()
    md.setMetadataBLOB("SEGY", "TextHeader", bytes(3200))
    md.setMetadataBLOB("SEGY", "BinaryHeader", bytes(400))
    vds = openvds.create(path, "", layout, axes, ch, md)
    try:
        am = openvds.getAccessManager(vds)
        for channel, src in ((0, data), (1, np.ones((n_il, n_xl, 1), dtype=np.uint8)), (2, hdr)):
            acc = am.createVolumeDataPageAccessor(openvds.DimensionsND.Dimensions_012, 0, channel, 8,
                                                  openvds.IVolumeDataAccessManager.AccessMode.AccessMode_Create, 1024)
            for c in range(acc.getChunkCount()):
                page = acc.createPage(c)
                buf = np.array(page.getWritableBuffer(), copy=False)
                mn, mx = acc.getChunkMinMax(c)
                buf[...] = 0
                buf[0:mx[2] - mn[2], 0:mx[1] - mn[1], 0:mx[0] - mn[0]] = src[mn[2]:mx[2], mn[1]:mx[1], mn[0]:mx[0]]
                page.release()
            acc.commit()
    finally:
        openvds.close(vds)
    with pyvds.open(path) as f:
        vol = np.stack([np.array(f.read_inline(i), dtype=np.float32, copy=True) for i in range(len(f.ilines))])
        res = {"ilines": np.array(f.ilines), "xlines": np.array(f.xlines), "samples": np.array(f.samples, dtype=np.float64),
               "cube": vol}
    close_leaked_vds()
    return res


_vds_open = []


def track_vds():
    """pyvds opens one OpenVDS handle per accessor (iline, xline, depth_slice, trace, header) and closes only
    the main one; each handle owns 17 native threads and is not released when the Python object dies.  The
    harness wraps openvds.open/close (third-party, not the code under test) to know which handles are still
    open, so that a shard running many VDS cases does not exhaust the thread limit."""
    import openvds
    if getattr(openvds, "_vp_tracked", False):
        return
    real_open, real_close = openvds.open, openvds.close

    def open_(*a, **k):
        h = real_open(*a, **k)
        _vds_open.append(h)
        return h

    def close_(h):
        for i, x in enumerate(_vds_open):
            if x is h:
                del _vds_open[i]
                break
        return real_close(h)
    openvds.open, openvds.close, openvds._vp_tracked = open_, close_, True


def close_leaked_vds():
    """Close every OpenVDS handle that is still open (after the call under test has returned)."""
    import openvds
    while _vds_open:
        h = _vds_open[-1]
        try:
            openvds.close(h)
        except Exception:
            if _vds_open and _vds_open[-1] is h:
                _vds_open.pop()

"""Read operations as data: strategies that construct in-range calls, an executor that performs a call
on the real library, and the oracle that computes the expected result from the independent Truth."""
import os
import numpy as np
from hypothesis import strategies as st

from . import codec
from .core import Violation


# --------------------------------------------------------------------------------------------------
# construction of in-range arguments
@st.composite
def index_in(draw, n, b=4):
    """An ordinal in [0, n): built as k*b + r so every residue and the first/last block occur."""
    if n <= 1:
        return 0
    how = draw(st.sampled_from(["any", "first", "last", "blockedge"]))
    if how == "first":
        return 0
    if how == "last":
        return n - 1
    if how == "blockedge" and n > b:
        k = draw(st.integers(1, (n - 1) // b))
        return min(n - 1, k * b - draw(st.integers(0, 1)))
    return draw(st.integers(0, n - 1))


@st.composite
def range_in(draw, n, b=4):
    """A non-empty half-open range [a, b) within [0, n]."""
    a = draw(index_in(n, b))
    how = draw(st.sampled_from(["one", "any", "end", "blockedge"]))
    if how == "one":
        return a, a + 1
    if how == "end":
        return a, n
    if how == "blockedge":
        e = min(n, (a // b + draw(st.integers(1, 2))) * b + draw(st.sampled_from([0, 0, 1])))
        return a, max(a + 1, e)
    return a, draw(st.integers(a + 1, n))


def diag_len_c(cd, n_il, n_xl):
    return min(n_il - cd, n_xl) if cd >= 0 else min(n_il, n_xl + cd)


def diag_len_a(ad, n_il, n_xl):
    return len(adiag_positions(ad, n_il, n_xl))


def cdiag_positions(cd, n_il, n_xl):
    if cd >= 0:
        return [(d + cd, d) for d in range(diag_len_c(cd, n_il, n_xl))]
    return [(d, d - cd) for d in range(diag_len_c(cd, n_il, n_xl))]


def adiag_positions(ad, n_il, n_xl):
    """Anti-correlated diagonal `ad`: all grid positions with il + xl == ad, by increasing inline."""
    return [(i, ad - i) for i in range(n_il) if 0 <= ad - i < n_xl]


@st.composite
def op_3d(draw, T, methods=None):
    """One in-range read call on a 3D file whose independent truth is T."""
    n_il, n_xl, n_s = T.n_il, T.n_xl, T.n_s
    bs = T.s.blockshape
    m = draw(st.sampled_from(methods or METHODS_3D))
    if m in ("read_inline", "iline"):
        i = draw(index_in(n_il, bs[0]))
        return {"m": m, "a": [i]}
    if m in ("read_inline_number",):
        return {"m": m, "a": [draw(index_in(n_il, bs[0]))]}
    if m in ("read_crossline", "read_crossline_number", "xline"):
        return {"m": m, "a": [draw(index_in(n_xl, bs[1]))]}
    if m in ("read_zslice", "read_zslice_coord", "depth_slice"):
        return {"m": m, "a": [draw(index_in(n_s, bs[2]))]}
    if m in ("read_subvolume", "subvolume_acc", "xarray"):
        a = list(draw(range_in(n_il, bs[0]))) + list(draw(range_in(n_xl, bs[1]))) + list(draw(range_in(n_s, bs[2])))
        op = {"m": m, "a": a}
        if m in ("subvolume_acc", "xarray"):
            op["steps"] = [draw(st.sampled_from([None, 1, 2, 3])) for _ in range(3)]
            op["open"] = [draw(st.booleans()) for _ in range(6)]   # bound given as None where it is the axis end
        if m == "xarray":
            op["ints"] = [draw(st.sampled_from([False, False, True])) for _ in range(3)]
            op["neg"] = [draw(st.sampled_from([False, False, True])) for _ in range(3)]
            op["via"] = draw(st.sampled_from(["data", "isel", "sel", "backend"]))
            if op["via"] == "sel":
                op["neg"] = [False, False, False]
        return op
    if m in ("read_volume", "tools.cube"):
        return {"m": m, "a": []}
    if m in ("get_trace", "trace"):
        return {"m": m, "a": [draw(index_in(T.n_tr, bs[1]))]}
    if m in ("get_trace_window", "get_trace_by_coord"):
        i = draw(index_in(T.n_tr, bs[1]))
        a, b = draw(range_in(n_s, bs[2]))
        op = {"m": m, "a": [i, a, b]}
        if m == "get_trace_by_coord":
            op["open"] = [draw(st.booleans()), draw(st.booleans())]
        return op
    if m == "cdiag":
        cd = draw(st.integers(-(n_xl - 1), n_il - 1))
        L = diag_len_c(cd, n_il, n_xl)
        op = {"m": m, "a": [cd]}
        if draw(st.booleans()):
            op["crop"] = list(draw(range_in(L, 4)))
        if draw(st.booleans()):
            op["win"] = list(draw(range_in(n_s, bs[2])))
        return op
    if m == "adiag":
        ad = draw(st.integers(0, n_il + n_xl - 2))
        L = diag_len_a(ad, n_il, n_xl)
        op = {"m": m, "a": [ad]}
        if draw(st.booleans()):
            op["crop"] = list(draw(range_in(L, 4)))
        if draw(st.booleans()):
            op["win"] = list(draw(range_in(n_s, bs[2])))
        return op
    if m in ("gen_trace_header", "gen_trace_header_all", "header"):
        return {"m": m, "a": [draw(index_in(T.n_tr, bs[1]))]}
    if m in ("get_tracefield_values", "attributes"):
        return {"m": m, "a": [draw(st.sampled_from(tracefield_choices(T)))]}
    if m == "meta":
        return {"m": m, "a": []}
    raise ValueError(m)


METHODS_3D_SAMPLES = ["read_inline", "read_inline_number", "read_crossline", "read_crossline_number", "read_zslice",
                      "read_zslice_coord", "read_subvolume", "read_subvolume", "read_volume", "get_trace",
                      "get_trace_window", "get_trace_by_coord", "cdiag", "adiag", "iline", "xline", "depth_slice",
                      "trace", "subvolume_acc", "tools.cube", "xarray"]
METHODS_3D_HEADERS = ["gen_trace_header", "gen_trace_header_all", "header", "get_tracefield_values", "attributes"]
METHODS_3D = METHODS_3D_SAMPLES + METHODS_3D_HEADERS
# methods that go through one SgzReader object (no second open of the file)
METHODS_3D_READER = ["read_inline", "read_inline_number", "read_crossline", "read_crossline_number", "read_zslice",
                     "read_zslice_coord", "read_subvolume", "read_volume", "get_trace", "get_trace_window",
                     "get_trace_by_coord", "cdiag", "adiag", "gen_trace_header", "gen_trace_header_all",
                     "get_tracefield_values"]
METHODS_EMU_3D = ["iline", "xline", "depth_slice", "trace", "header", "subvolume_acc", "attributes"]


@st.composite
def op_2d(draw, T, methods=None):
    n_tr, n_s = T.n_tr, T.n_s
    bs = T.s.blockshape
    m = draw(st.sampled_from(methods or METHODS_2D))
    if m in ("get_trace", "trace", "gen_trace_header", "gen_trace_header_all", "header"):
        return {"m": m, "a": [draw(index_in(n_tr, bs[1]))]}
    if m == "get_trace_window":
        i = draw(index_in(n_tr, bs[1]))
        a, b = draw(range_in(n_s, bs[2]))
        return {"m": m, "a": [i, a, b]}
    if m == "read_subplane":
        return {"m": m, "a": list(draw(range_in(n_tr, bs[1]))) + list(draw(range_in(n_s, bs[2])))}
    if m in ("get_tracefield_values", "attributes"):
        return {"m": m, "a": [draw(st.sampled_from(tracefield_choices(T)))]}
    if m == "meta":
        return {"m": m, "a": []}
    raise ValueError(m)


METHODS_2D = ["get_trace", "get_trace_window", "read_subplane", "read_subplane", "trace", "gen_trace_header",
              "gen_trace_header_all", "header", "get_tracefield_values", "attributes"]
METHODS_2D_READER = ["get_trace", "get_trace_window", "read_subplane", "gen_trace_header", "gen_trace_header_all",
                     "get_tracefield_values"]


def methods_for(T, reader_only=False, emu_only=False, samples_only=False):
    if T.is_2d:
        ms = METHODS_2D_READER if reader_only else (["trace", "header", "attributes"] if emu_only else METHODS_2D)
    else:
        ms = METHODS_3D_READER if reader_only else (METHODS_EMU_3D if emu_only else METHODS_3D)
        z = T.samples
        if not (np.all(z == np.round(z)) and len(z) > 1 and z[1] != z[0]):
            # subvolume[...] addresses samples by *integer* coordinate: only meaningful on whole-ms axes
            ms = [m for m in ms if m != "subvolume_acc"]
    if samples_only:
        ms = [m for m in ms if m not in METHODS_3D_HEADERS]
    if not T.owners:
        ms = [m for m in ms if m not in ("get_tracefield_values", "attributes")]
    if not emu_only and not samples_only:
        ms = list(ms) + ["meta"]     # applicable to every file; only C02 and C15 generate it
    return ms


def field_owner(T, code):
    """The field whose footer array holds the values of `code` (itself, or the word it duplicates); None for a
    word that is constant through the file (no array)."""
    if isinstance(T.cols[code], (int, np.integer)):
        return None
    for c, const, dup in T.s.table:
        if c == code:
            return dup
    return None


def tracefield_choices(T):
    """Header words a caller may ask whole arrays of: the stored ones (weighted), words stored as duplicates of
    another, and a few that are constant through the file (sample count, interval, offset, two unused words)."""
    dups = [c for c, const, dup in T.s.table if c in T.cols and const == 0 and dup not in (0, c) and not isinstance(T.cols[c], (int, np.integer))]
    consts = [c for c in (115, 117, 37, 233, 29) if c in T.cols and isinstance(T.cols[c], (int, np.integer))]
    return list(T.owners) * 2 + dups + consts


def op_for(T, **kw):
    ms = methods_for(T, **kw)
    base = op_2d(T, ms) if T.is_2d else op_3d(T, ms)
    return st.builds(lambda o, t: dict(o, argt=t) if t != "int" else o, base, st.sampled_from(ARG_FLAVOURS))


# --------------------------------------------------------------------------------------------------
# oracle
def expected(T, op):
    """('array', ndarray) | ('header', dict) | ('ints', ndarray) according to the documentation of the call."""
    m, a = op["m"], op["a"]
    V = T.V
    if T.is_2d:
        if m in ("get_trace", "trace"):
            return "trace", V[a[0]]
        if m == "get_trace_window":
            return "trace", V[a[0], a[1]:a[2]]
        if m == "read_subplane":
            return "array", V[a[0]:a[1], a[2]:a[3]]
    else:
        if m == "iline_slice":
            return "array", V[a[0]:a[1]]
        if m == "xline_slice":
            return "array", np.ascontiguousarray(V[:, a[0]:a[1]].transpose(1, 0, 2))
        if m in ("read_inline", "read_inline_number", "iline"):
            return "array", V[a[0]]
        if m in ("read_crossline", "read_crossline_number", "xline"):
            return "array", V[:, a[0]]
        if m in ("read_zslice", "read_zslice_coord", "depth_slice"):
            return "array", V[:, :, a[0]]
        if m == "read_subvolume":
            return "array", V[a[0]:a[1], a[2]:a[3], a[4]:a[5]]
        if m == "subvolume_acc":
            st_ = [s or 1 for s in op["steps"]]
            return "array", V[a[0]:a[1]:st_[0], a[2]:a[3]:st_[1], a[4]:a[5]:st_[2]]
        if m == "xarray":
            return "array", V[xarray_index(op)]
        if m in ("read_volume", "tools.cube"):
            return "array", V
        if m in ("get_trace", "trace"):
            return "trace", T.trace(a[0])
        if m in ("get_trace_window", "get_trace_by_coord"):
            return "trace", T.trace(a[0])[a[1]:a[2]]
        if m in ("cdiag", "adiag"):
            pos = cdiag_positions(a[0], T.n_il, T.n_xl) if m == "cdiag" else adiag_positions(a[0], T.n_il, T.n_xl)
            if "crop" in op:
                pos = pos[op["crop"][0]:op["crop"][1]]
            w = op.get("win", [0, T.n_s])
            return "array", np.stack([V[i, x, w[0]:w[1]] for i, x in pos])
    if m in ("gen_trace_header", "gen_trace_header_all", "header"):
        return "header", T.header(a[0])
    if m == "get_tracefield_values":
        col = T.cols[a[0]]
        if isinstance(col, (int, np.integer)):
            return _constant_word(T, col, grid=not T.is_2d)
        if T.is_2d:
            return "ints", np.asarray(col)
        return "ints", np.asarray(col).reshape(T.n_il, T.n_xl)
    if m == "meta":
        # what the file says about itself: source hash, SEG-Y file headers, trace count, sample axis
        full = T.s.data_start >= 8192     # the first format revision has a 4 KiB header without SEG-Y file headers
        return "meta", {"hash": T.s.hash, "text": T.raw[4096:4096 + 3200] if full else None,
                        "bin": T.raw[4096 + 3200:4096 + 3600] if full else None,
                        "tracecount": T.n_tr, "samples": np.asarray(T.samples, dtype=np.float64)}
    if m == "attributes":
        # the emulator's attributes(field): the stored array as one flat vector (grid order, zeros at holes)
        if isinstance(T.cols[a[0]], (int, np.integer)):
            return _constant_word(T, T.cols[a[0]], grid=False)
        return "ints", np.asarray(T.cols[a[0]]).reshape(-1)
    raise ValueError(m)


def _constant_word(T, value, grid):
    """A word that is constant through the file, asked for as a whole array: one value per trace (2D) or per
    grid position; what a position without a trace holds (the constant or 0) is not stated anywhere."""
    if T.is_2d:
        return "ints", np.full(T.n_tr, int(value), dtype=np.int64)
    n = T.n_il * T.n_xl
    want = np.full(n, int(value), dtype=np.int64)
    live = np.zeros(n, dtype=bool)
    live[np.asarray(T.pop, dtype=np.int64)] = True
    if grid:
        want, live = want.reshape(T.n_il, T.n_xl), live.reshape(T.n_il, T.n_xl)
    return ("ints", want) if live.all() else ("ints-live", (want, live))


def xarray_index(op):
    a = op["a"]
    idx = []
    for k in range(3):
        lo, hi = a[2 * k], a[2 * k + 1]
        if op["ints"][k]:
            idx.append(lo)
            continue
        step = op["steps"][k]
        s0 = None if (op["open"][2 * k] and lo == 0) else lo
        s1 = hi
        if op["neg"][k]:
            # reversed slice covering the same elements: [hi-1 : lo-1 : -step]
            st_ = -(step or 1)
            idx.append(slice(hi - 1, (lo - 1) if lo > 0 else None, st_))
        else:
            idx.append(slice(s0, s1, step))
    return tuple(idx)


# --------------------------------------------------------------------------------------------------
# executor
PATH_FORMS = ["str", "str", "str", "path", "bytes", "fileobj"]


def path_form(raw):
    """The form in which the file is named to the library: chosen by the file's content, so that it is a
    function of the case (str, pathlib.Path, bytes path, an open binary file object)."""
    import zlib
    return PATH_FORMS[zlib.crc32(bytes(raw[:4096])) % len(PATH_FORMS)]


def in_form(path, form, opened=None):
    if form == "path":
        import pathlib
        return pathlib.Path(path)
    if form == "bytes":
        return os.fsencode(path)
    if form == "fileobj":
        f = open(path, "rb")
        if opened is not None:
            opened.append(f)
        return f
    return path


def open_relative(factory, path, *a, **k):
    """Create a library object from a path given relative to the directory the program is in at that moment; the
    program then moves on (back to where it was), and the object must keep working on the file it was given."""
    here = os.getcwd()
    os.chdir(os.path.dirname(path))
    try:
        return factory(os.path.basename(path), *a, **k)
    finally:
        os.chdir(here)


class Handles:
    """Opens what an operation needs, lazily, and closes everything at the end."""
    def __init__(self, path, T, reader=None):
        self.path, self.T = path, T
        self._reader = reader
        self._own_reader = reader is None
        self._emu = None
        self._xr = None
        self._files = []
        self.form = path_form(T.raw) if os.environ.get("VERIF_PATH_FORMS", "1") != "0" else "str"

    @property
    def reader(self):
        if self._reader is None:
            from seismic_zfp.read import SgzReader
            self._reader = SgzReader(in_form(self.path, self.form, self._files))
        return self._reader

    @property
    def emu(self):
        if self._emu is None:
            import seismic_zfp
            self._emu = seismic_zfp.open(in_form(self.path, self.form, self._files))
        return self._emu

    def xr(self, via):
        if self._xr is None:
            import xarray as xr
            # the documented way in: the registered backend, picked by the .sgz extension
            if self.path.endswith(".sgz"):
                self._xr = xr.open_dataset(in_form(self.path, "path" if self.form == "path" else "str"))
            else:
                from seismic_zfp.sgz_xarray import SeismicZfpBackendEntrypoint
                self._xr = SeismicZfpBackendEntrypoint().open_dataset(self.path)
        return self._xr

    def close(self):
        if self._reader is not None and self._own_reader:
            try:
                self._reader.close()
            except Exception:
                pass
        if self._emu is not None:
            try:
                self._emu.__exit__(None, None, None)
            except Exception:
                pass
        if self._xr is not None:
            try:
                self._xr.close()
            except Exception:
                pass
        for f in self._files:
            try:
                f.close()
            except Exception:
                pass


def coord_form(v, argt):
    """A sample coordinate in the form a caller may hold it in: the axis element itself (np.float64), a Python
    float, a float32 or an int when the value is exactly representable as such."""
    if argt == "np64":
        return float(v)
    if argt == "np32" and float(np.float32(v)) == float(v):
        return np.float32(v)
    if argt == "intp" and float(v).is_integer():
        return int(v)
    return v


ARG_TYPES = {"int": int, "np64": np.int64, "np32": np.int32, "intp": np.intp}
ARG_FLAVOURS = ["int", "int", "int", "np64", "np32", "int", "intp", "int"]


def perform(H, op):
    """Run the call on the real library; returns the raw result."""
    T = H.T
    m, a = op["m"], op["a"]
    # the integer type a caller's ordinals and line numbers arrive in: a Python int, or what indexing a NumPy
    # array / np.argmin / a loop over np.arange hands over
    cv = ARG_TYPES[op.get("argt") or os.environ.get("VERIF_ARGT") or "int"]
    if m == "read_inline":
        return H.reader.read_inline(cv(a[0]))
    if m == "read_inline_number":
        return H.reader.read_inline_number(cv(T.ilines[a[0]]))
    if m == "read_crossline":
        return H.reader.read_crossline(cv(a[0]))
    if m == "read_crossline_number":
        return H.reader.read_crossline_number(cv(T.xlines[a[0]]))
    if m == "read_zslice":
        return H.reader.read_zslice(cv(a[0]))
    if m == "read_zslice_coord":
        return H.reader.read_zslice_coord(coord_form(H.reader.zslices[a[0]], op.get("argt")))
    if m == "read_subvolume":
        return H.reader.read_subvolume(*[cv(x) for x in a])
    if m == "read_volume":
        return H.reader.read_volume()
    if m == "tools.cube":
        import seismic_zfp
        return seismic_zfp.tools.cube(in_form(H.path, "path" if H.form == "path" else "str"))
    if m == "get_trace":
        return H.reader.get_trace(cv(a[0]))
    if m == "get_trace_window":
        return H.reader.get_trace(cv(a[0]), cv(a[1]), cv(a[2]))
    if m == "get_trace_by_coord":
        z = H.reader.zslices
        lo = None if (op["open"][0] and a[1] == 0) else coord_form(z[a[1]], op.get("argt"))
        if a[2] == T.n_s:
            hi = None if op["open"][1] else z[-1] + (z[-1] - z[-2])   # "last value plus the last step": what a caller writes for a float axis
        else:
            hi = z[a[2]]
        return H.reader.get_trace_by_coord(cv(a[0]), lo, hi)
    if m in ("cdiag", "adiag"):
        fn = H.reader.read_correlated_diagonal if m == "cdiag" else H.reader.read_anticorrelated_diagonal
        kw = {}
        if "crop" in op:
            kw.update(dict(zip(("min_cd_idx", "max_cd_idx") if m == "cdiag" else ("min_ad_idx", "max_ad_idx"), [cv(x) for x in op["crop"]])))
        if "win" in op:
            kw.update(min_sample_idx=cv(op["win"][0]), max_sample_idx=cv(op["win"][1]))
        return fn(cv(a[0]), **kw)
    if m == "read_subplane":
        return H.reader.read_subplane(*[cv(x) for x in a])
    if m == "gen_trace_header":
        return H.reader.gen_trace_header(cv(a[0]))
    if m == "gen_trace_header_all":
        return H.reader.gen_trace_header(cv(a[0]), load_all_headers=True)
    if m == "get_tracefield_values":
        return H.reader.get_tracefield_values(a[0])
    if m == "meta":
        r = H.reader
        h = r.get_source_data_hash()
        return {"hash": bytes.fromhex(h) if isinstance(h, str) else bytes(h), "text": bytes(r.file_text_header),
                "bin": bytes(r.file_binary_header), "tracecount": int(r.tracecount), "samples": np.asarray(r.zslices, dtype=np.float64)}
    # emulator
    if m in ("iline_slice", "xline_slice"):
        # lines a[0] .. a[1]-1 of an ascending axis, addressed by number as segyio does: one expression, whose
        # generator is consumed at once
        ax, acc = (T.ilines, H.emu.iline) if m == "iline_slice" else (T.xlines, H.emu.xline)
        stop = cv(ax[a[1]]) if a[1] < len(ax) else None
        return np.stack([np.array(x) for x in acc[cv(ax[a[0]]):stop]])
    if m == "iline":
        return H.emu.iline[cv(T.ilines[a[0]])]
    if m == "xline":
        return H.emu.xline[cv(T.xlines[a[0]])]
    if m == "depth_slice":
        return H.emu.depth_slice[cv(a[0])]
    if m == "trace":
        return H.emu.trace[cv(a[0])]
    if m == "header":
        return H.emu.header[cv(a[0])]
    if m == "attributes":
        return np.array(H.emu.attributes(a[0])[:])
    if m == "subvolume_acc":
        e = H.emu
        axes = [T.ilines, T.xlines, e.subvolume.zslices_int]
        sl = []
        for k in range(3):
            ax = axes[k]
            inc = int(ax[1] - ax[0])
            lo, hi = a[2 * k], a[2 * k + 1]
            start = None if (op["open"][2 * k] and lo == 0) else int(ax[lo])
            if hi == len(ax):
                stop = None if op["open"][2 * k + 1] else int(ax[-1] + inc)
            else:
                stop = int(ax[hi])
            step = None if op["steps"][k] is None else op["steps"][k] * inc
            sl.append(slice(start, stop, step))
        return e.subvolume[sl[0], sl[1], sl[2]]
    if m == "xarray":
        ds = H.xr(op["via"])
        idx = xarray_index(op)
        via = op["via"]
        if via == "data":
            return ds.data[idx].values
        if via == "backend":
            return ds.data.variable[idx].to_numpy()
        if via == "isel":
            return ds.data.isel(il=idx[0], xl=idx[1], z=idx[2]).to_numpy()
        if via == "sel":
            # label-based selection: scalars for integer axes, inclusive label slices otherwise
            coords = [ds.il.values, ds.xl.values, ds.z.values]
            sel = {}
            for name, k, c in zip(("il", "xl", "z"), idx, coords):
                if isinstance(k, slice):
                    picked = np.arange(len(c))[k]
                    sel[name] = slice(c[picked[0]], c[picked[-1]], k.step)
                else:
                    sel[name] = c[k]
            return ds.data.sel(**sel).to_numpy()
    raise ValueError(m)


def compare(kind, got, want, op):
    """Raise Violation if the library's result differs from the expected one."""
    if kind == "meta":
        for k in ("hash", "text", "bin", "tracecount"):
            if want[k] is not None and got[k] != want[k]:
                raise Violation(f"wrong-meta:{k}", f"{k}: {str(got[k])[:40]!r} vs {str(want[k])[:40]!r}")
        if len(got["samples"]) != len(want["samples"]) or (np.abs(got["samples"] - want["samples"]) > 1e-9 + 1e-12 * np.abs(want["samples"])).any():
            raise Violation("wrong-meta:samples", f"{got['samples'][:3]} vs {want['samples'][:3]}")
        return
    if kind in ("array", "trace"):
        g = np.asarray(got)
        w = np.asarray(want)
        if kind == "trace":
            # a one-sample window is returned 0-d by the library (np.squeeze); values are what counts
            g = g.reshape(-1)
            w = w.reshape(-1)
        if g.shape != w.shape:
            raise Violation(f"wrong-shape:{op['m']}", f"{op}: shape {g.shape}, expected {w.shape}")
        if g.dtype not in (np.float32, np.float64):
            raise Violation(f"wrong-dtype:{op['m']}", f"{op}: dtype {g.dtype}")
        g32 = g.astype(np.float32)
        if g.dtype == np.float64 and not np.array_equal(g32.astype(np.float64), g, equal_nan=True):
            raise Violation(f"wrong-values:{op['m']}", f"{op}: float64 result does not hold float32 values")
        if not codec.bits_equal(g32, w):
            raise Violation(f"wrong-values:{op['m']}", f"{op}: {codec.first_diff(g32, w)}")
    elif kind == "header":
        # compared on the 89 SEG-Y fields (v0.0.x files with an empty table also yield a key 0)
        g = {int(k): int(v) for k, v in dict(got).items() if int(k) in want}
        if g != want:
            bad = {k: (g.get(k), want.get(k)) for k in set(g) | set(want) if g.get(k) != want.get(k)}
            raise Violation(f"wrong-header:{op['m']}", f"{op}: field -> (got, want): {dict(list(bad.items())[:6])}")
    elif kind == "ints-live":
        g = np.asarray(got)
        w, live = want
        if g.shape != w.shape or not np.array_equal(g.astype(np.int64)[live], w[live]) or not np.isin(g.astype(np.int64)[~live], [0, int(w.flat[0])]).all():
            raise Violation(f"wrong-ints:{op['m']}", f"{op}: shape {g.shape} vs {w.shape}, or a wrong value at a position that holds a trace")
    elif kind == "ints":
        g = np.asarray(got)
        if g.shape != want.shape or not np.array_equal(g.astype(np.int64), want.astype(np.int64)):
            raise Violation(f"wrong-ints:{op['m']}", f"{op}: shape {g.shape} vs {want.shape}")
    else:
        raise ValueError(kind)


def box_class(op, T):
    """Residue classes of an operation's bounds (for signatures)."""
    bs = T.s.blockshape
    a = op["a"]
    if op["m"] in ("read_subvolume", "subvolume_acc", "xarray"):
        return [(a[2 * k] % 4, a[2 * k] % bs[k] == 0, a[2 * k + 1] % 4, a[2 * k + 1] % bs[k] == 0,
                 (a[2 * k + 1] - 1) // bs[k] > a[2 * k] // bs[k]) for k in range(3)]
    if op["m"] == "read_subplane":
        return [(a[2 * k] % 4, a[2 * k + 1] % 4, (a[2 * k + 1] - 1) // bs[k + 1] > a[2 * k] // bs[k + 1]) for k in range(2)]
    return [x % 4 if isinstance(x, int) else 0 for x in a]


# --------------------------------------------------------------------------------------------------
# abstract operations: drawn without knowing the file, made concrete against a Truth at run time
@st.composite
def abstract_op(draw, methods):
    return {"m": draw(st.sampled_from(methods)), "u": [draw(st.floats(0, 1, exclude_max=True)) for _ in range(8)],
            "b": [draw(st.booleans()) for _ in range(8)], "k": [draw(st.integers(0, 3)) for _ in range(4)]}


def _idx(u, n):
    return min(n - 1, int(u * n))


def _rng(u0, u1, n):
    lo = _idx(u0, n)
    hi = lo + 1 + int(u1 * (n - lo))
    return lo, min(hi, n)


def concretise(T, a):
    """Map an abstract op onto in-range arguments for the file whose truth is T (None if the method
    does not apply to this file)."""
    o = _concretise(T, a)
    t = ARG_FLAVOURS[(a["k"][3] + 2 * a["b"][7]) % len(ARG_FLAVOURS)]
    if o is not None and t != "int":
        o["argt"] = t
    return o


def _concretise(T, a):
    m, u, b, k = a["m"], a["u"], a["b"], a["k"]
    if m not in methods_for(T):
        return None
    if T.is_2d:
        if m in ("get_trace", "trace", "gen_trace_header", "gen_trace_header_all", "header"):
            return {"m": m, "a": [_idx(u[0], T.n_tr)]}
        if m == "get_trace_window":
            return {"m": m, "a": [_idx(u[0], T.n_tr), *_rng(u[1], u[2], T.n_s)]}
        if m == "read_subplane":
            return {"m": m, "a": [*_rng(u[0], u[1], T.n_tr), *_rng(u[2], u[3], T.n_s)]}
        if m in ("get_tracefield_values", "attributes"):
            return {"m": m, "a": [tracefield_choices(T)[_idx(u[0], len(tracefield_choices(T)))]]}
        if m == "meta":
            return {"m": m, "a": []}
        return None
    n_il, n_xl, n_s = T.n_il, T.n_xl, T.n_s
    if m in ("read_inline", "read_inline_number", "iline"):
        return {"m": m, "a": [_idx(u[0], n_il)]}
    if m in ("read_crossline", "read_crossline_number", "xline"):
        return {"m": m, "a": [_idx(u[0], n_xl)]}
    if m in ("read_zslice", "read_zslice_coord", "depth_slice"):
        return {"m": m, "a": [_idx(u[0], n_s)]}
    if m in ("read_subvolume", "subvolume_acc", "xarray"):
        op = {"m": m, "a": [*_rng(u[0], u[1], n_il), *_rng(u[2], u[3], n_xl), *_rng(u[4], u[5], n_s)]}
        if m in ("subvolume_acc", "xarray"):
            op["steps"] = [None if x == 0 else x for x in k[:3]]
            op["open"] = list(b[:6])
        if m == "xarray":
            op["ints"] = [b[6] and k[3] == 0, b[7] and k[3] == 1, False]
            op["neg"] = [False, False, False]
            op["via"] = ["data", "isel", "sel", "backend"][k[3]]
        return op
    if m in ("read_volume", "tools.cube"):
        return {"m": m, "a": []}
    if m in ("get_trace", "trace", "gen_trace_header", "gen_trace_header_all", "header"):
        return {"m": m, "a": [_idx(u[0], T.n_tr)]}
    if m in ("get_trace_window", "get_trace_by_coord"):
        op = {"m": m, "a": [_idx(u[0], T.n_tr), *_rng(u[1], u[2], n_s)]}
        if m == "get_trace_by_coord":
            op["open"] = list(b[:2])
        return op
    if m in ("cdiag", "adiag"):
        if m == "cdiag":
            d = -(n_xl - 1) + _idx(u[0], n_il + n_xl - 1)
            L = diag_len_c(d, n_il, n_xl)
        else:
            d = _idx(u[0], n_il + n_xl - 1)
            L = diag_len_a(d, n_il, n_xl)
        op = {"m": m, "a": [d]}
        if b[0]:
            op["crop"] = list(_rng(u[1], u[2], L))
        if b[1]:
            op["win"] = list(_rng(u[3], u[4], n_s))
        return op
    if m in ("get_tracefield_values", "attributes"):
        return {"m": m, "a": [tracefield_choices(T)[_idx(u[0], len(tracefield_choices(T)))]]}
    if m == "meta":
        return {"m": m, "a": []}
    return None


def run_ops(path, T, abstract_ops, fresh=True, companion=None):
    """Perform each abstract op on the real library and compare with the truth.  Returns labels.
    fresh=False: one reader / emulator serves all the calls of the list (as a program would use it).
    companion=(path2, T2): another file of the same shape and layout stays open in a second reader, which is
    asked for the same item just before every call (two vintages of a line read side by side)."""
    labels = []
    shared = None if fresh else Handles(path, T)
    other = Handles(companion[0], companion[1]) if companion else None
    try:
        for a in abstract_ops:
            op = concretise(T, a)
            if op is None:
                continue
            if other is not None and op["m"] not in ("get_tracefield_values", "attributes", "meta", "xarray", "tools.cube"):
                k2, w2 = expected(companion[1], op)
                try:
                    g2 = perform(other, op)
                except Exception as e:
                    raise Violation(f"exception:{op['m']}", f"companion file, {op}: {type(e).__name__}: {e}")
                compare(k2, g2, w2, op)
            H = Handles(path, T) if fresh else shared
            try:
                kind, want = expected(T, op)
                try:
                    got = perform(H, op)
                except Exception as e:
                    raise Violation(f"exception:{op['m']}", f"{op}: {type(e).__name__}: {e}")
                compare(kind, got, want, op)
            finally:
                if fresh:
                    H.close()
            labels.append(op["m"])
    finally:
        if shared is not None:
            shared.close()
        if other is not None:
            other.close()
    return labels

"""Environment plumbing: where the code under test comes from, which version it believes it has,
scratch space, stdout silencing.  Nothing here touches /repo."""
import contextlib
import io
import os
import shutil
import sys
import tempfile
import warnings

VERIF_DIR = os.path.dirname(os.path.dirname(os.path.abspath(__file__)))
REPO = os.environ.get("VERIF_REPO", "/repo")
GUARD = "SEISMIC_ZFP_VERIF"
DEFAULT_VERSION = "0.2.8"


def scratch_root():
    """A fresh private directory (prefer /dev/shm: small files, many of them)."""
    base = os.environ.get("VERIF_TMP")
    if base is None:
        base = "/dev/shm" if os.path.isdir("/dev/shm") and os.access("/dev/shm", os.W_OK) else None
    return tempfile.mkdtemp(prefix="vp_", dir=base)


def make_shadow_dist(root, version=DEFAULT_VERSION):
    """Copy the installed dist-info of seismic_zfp under a parseable version number.

    The sandbox's install reports the setuptools_scm no-tag fallback `0.1.devN+g...`, which the
    library's own version parser refuses, so no writer can run.  The version the library believes it
    has is an *input* of the checks; it is supplied by a directory that precedes site-packages on
    sys.path.  entry_points.txt is kept so the xarray engine stays registered."""
    import importlib.metadata as md
    d = md.distribution("seismic_zfp")
    src = str(d._path)
    shadow = os.path.join(root, "shadow")
    os.makedirs(shadow, exist_ok=True)
    dst = os.path.join(shadow, f"seismic_zfp-{version}.dist-info")
    if not os.path.isdir(dst):
        shutil.copytree(src, dst)
        meta = os.path.join(dst, "METADATA")
        lines = open(meta, encoding="utf-8").read().split("\n")
        for i, l in enumerate(lines):
            if l.startswith("Version:"):
                lines[i] = f"Version: {version}"
                break
        open(meta, "w", encoding="utf-8").write("\n".join(lines))
        rec = os.path.join(dst, "RECORD")
        if os.path.exists(rec):
            os.remove(rec)
    return shadow


def child_env(shadow):
    env = dict(os.environ)
    parts = [shadow, REPO, VERIF_DIR]
    deps = os.path.join(VERIF_DIR, ".deps")
    if os.path.isdir(deps):
        parts.append(deps)
    if env.get("PYTHONPATH"):
        parts.append(env["PYTHONPATH"])
    env["PYTHONPATH"] = os.pathsep.join(parts)
    env["PYTHONHASHSEED"] = "0"
    env[GUARD] = "1"
    env["PIP_NO_INDEX"] = "1"
    env.setdefault("OMP_NUM_THREADS", "1")
    env.setdefault("OPENBLAS_NUM_THREADS", "1")
    return env


def assert_code_under_test():
    import seismic_zfp
    here = os.path.realpath(os.path.dirname(seismic_zfp.__file__))
    want = os.path.realpath(os.path.join(REPO, "seismic_zfp"))
    if here != want:
        raise RuntimeError(f"seismic_zfp imported from {here}, expected {want}")
    import pkg_resources
    v = pkg_resources.get_distribution("seismic_zfp").version
    from seismic_zfp.version import SeismicZfpVersion
    SeismicZfpVersion(v)  # must parse
    return v


class _Dist:
    def __init__(self, version):
        self.version = version


class _PkgResourcesStub:
    """Stand-in for the `pkg_resources` module global of conversion_utils: lets one process write
    files under many library versions."""
    def __init__(self, version, real):
        self._v = version
        self._real = real

    def get_distribution(self, name):
        if name.replace("-", "_") == "seismic_zfp":
            return _Dist(self._v)
        return self._real.get_distribution(name)

    def __getattr__(self, item):
        return getattr(self._real, item)


@contextlib.contextmanager
def library_version(version):
    import seismic_zfp.conversion_utils as cu
    real = cu.pkg_resources
    cu.pkg_resources = _PkgResourcesStub(version, real)
    try:
        yield
    finally:
        cu.pkg_resources = real


@contextlib.contextmanager
def quiet():
    """The library prints progress; keep check output clean.  Warnings are not errors here."""
    buf = io.StringIO()
    with warnings.catch_warnings():
        warnings.simplefilter("ignore")
        with contextlib.redirect_stdout(buf):
            yield buf


def silence_warnings():
    warnings.simplefilter("ignore")

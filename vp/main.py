import argparse
import os
import sys

from vp import core


def main():
    ap = argparse.ArgumentParser()
    ap.add_argument("prop")
    ap.add_argument("--tier", default=os.environ.get("VERIF_TIER", "quick"), choices=["quick", "thorough"])
    ap.add_argument("--replay")
    a = ap.parse_args()
    try:
        seed = int(os.environ.get("VERIF_SEED", "1"))
    except ValueError:
        seed = 1
    try:
        if a.replay:
            rc = core.run_replay(a.prop, a.replay)
        else:
            rc = core.run_property(a.prop, a.tier, seed)
    except Exception:
        import traceback
        traceback.print_exc()
        rc = 2
    sys.exit(rc)


if __name__ == "__main__":
    main()

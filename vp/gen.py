"""Hypothesis strategies shared by the checks.  Structure (shapes, settings, routes, boxes) is drawn
directly and shrinks; bulk sample values are a pure function of a *drawn* integer (numpy PCG64)."""
import itertools
import numpy as np
from hypothesis import strategies as st

RATES = [0.25, 0.5, 1, 2, 4, 8, 16, 32]


def _triples(total_log2, lo=2):
    out = []
    for a in range(lo, total_log2 - 2 * lo + 1):
        for b in range(lo, total_log2 - a - lo + 1):
            c = total_log2 - a - b
            if c >= lo:
                out.append((2 ** a, 2 ** b, 2 ** c))
    return out


def valid_settings_3d():
    """All (rate, blockshape) with power-of-two dims >= 4 and dims x rate = 32768 bits."""
    out = []
    for r in RATES:
        k = int(np.log2(32768 / r))
        for t in _triples(k):
            out.append((r, t))
    return out


def valid_settings_2d():
    out = []
    for r in RATES:
        k = int(np.log2(32768 / r))
        for a in range(2, k - 1):
            out.append((r, (1, 2 ** a, 2 ** (k - a))))
    return out


SETTINGS_3D = valid_settings_3d()
SETTINGS_2D = valid_settings_2d()
assert len(SETTINGS_3D) == 344, len(SETTINGS_3D)


def rate_spelling(rate, how):
    """The ways a caller can spell a bit rate."""
    if how == "num":
        return rate if rate < 1 else int(rate)
    if how == "float":
        return float(rate)
    if how == "str":
        return str(rate if rate < 1 else int(rate))
    if how == "neg":  # negative = reciprocal (only meaningful below 1)
        return -int(round(1 / rate)) if rate < 1 else int(rate)
    raise ValueError(how)


@st.composite
def setting_spelled(draw, settings=None, layouts=None):
    """(rate, blockshape) + a spelling: which of the four numbers is left as -1, and how the rate is written."""
    s = draw(st.sampled_from(settings or SETTINGS_3D))
    free = draw(st.sampled_from(["none", "bpv", "b0", "b1", "b2"]))
    how = draw(st.sampled_from(["num", "float", "str", "neg"]))
    return {"rate": s[0], "blockshape": list(s[1]), "free": free, "rate_as": how}


def spelled_args(setting):
    rate, bs = setting["rate"], list(setting["blockshape"])
    free = setting.get("free", "none")
    bpv = rate_spelling(rate, setting.get("rate_as", "num"))
    if free == "bpv":
        bpv = -1
    elif free in ("b0", "b1", "b2"):
        bs[int(free[1])] = -1
    return bpv, tuple(bs)


DIM_CLASSES = ["lt", "eq", "gt", "multi"]


@st.composite
def dim(draw, b, classes=DIM_CLASSES, minimum=2):
    """A dimension built as k*b + r so every residue and every size class is constructed."""
    c = draw(st.sampled_from(classes))
    if c == "lt":
        n = draw(st.integers(minimum, max(minimum, b - 1)))
    elif c == "eq":
        n = b
    elif c == "gt":
        n = b + draw(st.integers(1, max(1, b - 1)))
    else:
        n = draw(st.integers(2, 3)) * b + draw(st.integers(0, b - 1))
    return max(n, minimum)


def dim_class(n, b):
    if n < b:
        return "lt"
    if n == b:
        return "eq"
    if n < 2 * b:
        return "gt"
    return "multi"


@st.composite
def shape3d(draw, bs, max_voxels=400_000, max_traces=None, magnitudes="all"):
    """Cube shape for blockshape bs.  Size classes are drawn per axis; if the padded cube would be too
    large, the classes of the largest axes are lowered (construction, not rejection).

    magnitudes: one cube in twenty is large in ONE respect and tiny in the others, so that counts pass the
    places where an 8-, 15- or 16-bit quantity would wrap: "lines" = more than 256 or more than 1024 lines on one axis;
    "all" = also more than 65 536 traces (256+ x 256+), and more than 32 767 / 65 535 samples per trace.  The size
    limits do not apply to these (the padded cube stays below about 20 million voxels by construction)."""
    if magnitudes and draw(st.integers(0, 19)) == 13:
        kinds = []
        if bs[2] <= 2048:
            kinds += ["il", "xl"]
        if magnitudes == "all" and bs[2] <= 64:
            kinds += ["traces"]
        if magnitudes == "all" and bs[0] * bs[1] <= 64:
            kinds += ["samples", "samples"]
        if kinds:
            k = draw(st.sampled_from(kinds))
            few = lambda b: draw(st.integers(2, min(6, max(2, b))))
            many = lambda: draw(st.sampled_from([256, 1024])) + draw(st.integers(1, 45))
            if k == "il":
                return (many(), few(bs[1]), min(few(bs[2]) + 2, 9))
            if k == "xl":
                return (few(bs[0]), many(), min(few(bs[2]) + 2, 9))
            if k == "traces":
                return (256 + draw(st.integers(1, 8)), 256 + draw(st.integers(1, 8)), draw(st.integers(2, 5)))
            return (few(bs[0]), few(bs[1]), draw(st.sampled_from([32767, 32768, 32769, 33001, 65535, 65536, 65537, 66003])))
    cls = [draw(st.sampled_from(DIM_CLASSES)) for _ in range(3)]
    mult = {"lt": 1, "eq": 1, "gt": 2, "multi": 4}
    if bs[0] * bs[1] <= 16 and draw(st.integers(0, 3)) == 0:
        # many block columns in the inline/crossline plane (more than the 20 workers of a remote reader, more
        # than any per-axis cache holds): a few samples per trace keep the cube small
        cap = max_voxels // max(bs[2], 1)
        if max_traces is not None:
            cap = min(cap, max_traces)
        if cap >= 40 * bs[0] * bs[1]:
            n0 = draw(st.integers(4 * bs[0] + 1, min(11 * bs[0], cap // (6 * bs[1]))))
            p0 = -(-n0 // bs[0]) * bs[0]
            n1 = draw(st.integers(5 * bs[1] + 1, max(5 * bs[1] + 1, min(11 * bs[1], cap // p0))))
            return (n0, n1, draw(dim(bs[2], classes=["lt", "eq"])))

    def too_big(cl):
        p = [mult[c] * b for c, b in zip(cl, bs)]
        return p[0] * p[1] * p[2] > max_voxels or (max_traces is not None and p[0] * p[1] > max_traces)
    axes = sorted(range(3), key=lambda a: -bs[a])
    for a in itertools.cycle(axes):
        if not too_big(cls) or all(c in ("lt", "eq") for c in cls):
            break
        if cls[a] == "multi":
            cls[a] = "gt"
        elif cls[a] == "gt":
            cls[a] = "eq"
    shape = [draw(dim(b, classes=[c])) for c, b in zip(cls, bs)]
    if max_traces is not None and shape[0] * shape[1] > max_traces:
        # a single block can exceed the trace budget (e.g. 64 x 64): shrink below the block
        for a in (0, 1):
            shape[a] = min(shape[a], draw(st.integers(2, max(2, int(max_traces ** 0.5)))))
    return tuple(shape)


# "deadedge": live samples with a dead (all-zero) first inline, first and last crossline, as at the rim of a survey
VALUE_KINDS = ["smooth", "gauss", "const", "huge", "tiny", "mixed", "steps", "zeros_signed", "deadedge"]


def make_values(shape, kind, vseed):
    """Finite float32 samples: a pure function of (shape, kind, vseed)."""
    rng = np.random.Generator(np.random.PCG64(int(vseed)))
    n = int(np.prod(shape))
    if kind == "smooth":
        g = np.meshgrid(*[np.arange(s, dtype=np.float64) for s in shape], indexing="ij")
        ph = rng.uniform(0, 6.28, size=len(shape))
        fr = rng.uniform(0.05, 0.9, size=len(shape))
        a = sum(np.sin(ph[k] + fr[k] * g[k]) for k in range(len(shape))) * rng.uniform(0.1, 1000)
    elif kind == "gauss":
        a = rng.standard_normal(n).reshape(shape) * 10.0 ** rng.integers(-3, 6)
    elif kind == "const":
        a = np.full(shape, rng.standard_normal() * 10.0 ** rng.integers(-3, 6))
    elif kind == "huge":
        a = rng.uniform(-1, 1, n).reshape(shape) * 10.0 ** rng.uniform(30, 38)
    elif kind == "tiny":
        a = rng.uniform(-1, 1, n).reshape(shape) * 10.0 ** rng.uniform(-44, -36)
    elif kind == "mixed":
        a = rng.standard_normal(n) * 10.0 ** rng.integers(-20, 20, n).astype(float)
        a = a.reshape(shape)
    elif kind == "steps":
        a = rng.integers(-3, 4, n).astype(np.float64).reshape(shape) * 1000.0
    elif kind == "zeros_signed":
        a = np.where(rng.integers(0, 2, n) == 0, 0.0, -0.0).reshape(shape)
        m = rng.integers(0, 8, n).reshape(shape) == 0
        a = np.where(m, rng.standard_normal(n).reshape(shape), a)
    elif kind == "deadedge":
        a = rng.standard_normal(n).reshape(shape) * 10.0 ** rng.integers(-1, 5)
        a[0] = 0.0
        if len(shape) == 3:
            a[:, -1] = 0.0
            a[:, 0] = 0.0      # (first crossline too: the first traces of a crossline-sorted file are then as dead as the first inline)
    else:
        raise ValueError(kind)
    a = np.asarray(a, dtype=np.float64)
    fmax = float(np.finfo(np.float32).max)
    a = np.clip(a, -fmax, fmax).astype(np.float32)
    assert np.all(np.isfinite(a))
    return np.ascontiguousarray(a)


MEM_LAYOUTS = ["C", "C", "F", "view", "zstrided", "readonly"]


def as_layout(a, layout):
    """The same float32 values in another memory layout (what a caller may hand to NumpyConverter: a
    Fortran-ordered array, a window into a larger array, every other sample of a longer one, a read-only
    array)."""
    if layout in (None, "C"):
        return a
    if layout == "F":
        return np.asfortranarray(a)
    if layout == "view":
        big = np.full(tuple(n + 3 for n in a.shape), np.float32(7.25), dtype=np.float32)
        sl = tuple(slice(1, 1 + n) for n in a.shape)
        big[sl] = a
        return big[sl]
    if layout == "zstrided":
        big = np.full(a.shape[:-1] + (2 * a.shape[-1],), np.float32(-3.5), dtype=np.float32)
        big[..., ::2] = a
        return big[..., ::2]
    if layout == "readonly":
        b = a.copy()
        b.setflags(write=False)
        return b
    raise ValueError(layout)


values_spec = st.fixed_dictionaries({"kind": st.sampled_from(VALUE_KINDS), "vseed": st.integers(0, 2 ** 32 - 1)})


def axis_values(start, step, count):
    return [start + step * i for i in range(count)]


@st.composite
def line_axis(draw, count, small=True):
    """(start, step) for a line axis; ascending/descending, negative, non-unit steps."""
    step = draw(st.sampled_from([1, 1, 2, 3, 5, 7, -1, -2, -4]))
    if small and count >= 2 and draw(st.integers(0, 7)) == 0:
        # an axis that carries the label 0 somewhere after its first position (negative numbering, or a
        # descending axis running down to or through 0): 0 is then a legitimate bound / coordinate
        k = draw(st.integers(1, count - 1))
        return -step * k, step
    if small:
        # mostly survey-like numbers; one in five large (labels of 1e5..1e7 and the int32 end), where a
        # tolerance-based or float32 label lookup would start to confuse neighbouring lines
        lim = 2 ** 31 - 1 - abs(step) * count
        start = draw(st.one_of(st.integers(-50, 3000), st.integers(-50, 3000), st.integers(-50, 3000), st.integers(-50, 3000),
                               st.one_of(st.integers(10 ** 5, 10 ** 7), st.integers(-10 ** 7, -10 ** 5), st.integers(lim - 1000, lim))))
    else:
        lim = 2 ** 31 - 1 - abs(step) * count
        start = draw(st.one_of(st.integers(-50, 3000), st.integers(-lim, lim)))
    return start, step

#!/usr/bin/env python3
"""Regenerate MANIFEST.json from the META of the implemented property modules."""
import importlib
import json
import os
import sys

here = os.path.dirname(os.path.dirname(os.path.abspath(__file__)))
sys.path.insert(0, here)
props = {json.loads(l)["id"]: json.loads(l) for l in open(os.path.join(here, "properties.jsonl"))}
BASE = "cd /repo && /venv/bin/python -m pytest -ra -q -p no:cacheprovider --timeout=900 --continue-on-collection-errors"
checks, na = [], []
for pid in sorted(props):
    path = os.path.join(here, "vp", "props", pid.lower() + ".py")
    if not os.path.exists(path):
        na.append({"property_id": pid, "reason": "check not built yet (planned in DESIGN.md section 3)"})
        continue
    src = open(path).read()
    # META is a literal dict at module level; evaluate it without importing the module's dependencies
    import ast
    tree = ast.parse(src)
    meta = None
    for node in tree.body:
        if isinstance(node, ast.Assign) and getattr(node.targets[0], "id", None) == "META":
            meta = ast.literal_eval(node.value)
    if meta.get("not_applicable"):
        na.append({"property_id": pid, "reason": meta["not_applicable"]})
        continue
    checks.append({
        "property_id": pid,
        "quick_cmd": f"VERIF_TIER=quick ./check {pid}",
        "thorough_cmd": f"VERIF_TIER=thorough ./check {pid}",
        "evidence_file": f"evidence/{pid}.json",
        "replay_cmd_template": f"./check {pid} --replay {{path}}",
        "engine": "hypothesis+vp",
        "level_claimed": {"category": meta["level"], "text": meta.get("level_text", meta["rule"]),
                          "design_ref": f"DESIGN.md section 3, {pid}"},
        "level_note": "; ".join(meta["assumptions"]),
        "technique": meta.get("technique", "property-based testing (Hypothesis) against an explicit oracle"),
    })
m = {
    "version": 1,
    "setup_cmd": "./setup.sh",
    "hooks": {"guard": "SEISMIC_ZFP_VERIF", "enable": "no source hooks: checks import seismic_zfp from /repo's working tree (pure Python, nothing to build); all observation points are harness-side stand-ins (file objects, queue/thread classes, open)",
              "baseline_off_cmd": BASE, "source_commits": [], "add_only": True},
    "engines": [{"name": "hypothesis+vp", "path": "vp/", "serves_properties": [c["property_id"] for c in checks],
                 "kind_free_text": "Hypothesis-driven generated cases (and exhaustive enumeration of small finite spaces) against explicit oracles: libzfp image, an independent spec-only SGZ reader/writer, segyio, pure-Python models; 16 shard processes; shrunk failures become JSON replay files"}],
    "checks": checks,
    "not_applicable": na,
    "notes": "Every check: ./check <id> [--tier quick|thorough] [--replay file]; honours VERIF_SEED and VERIF_TIER; exit 0/1/2 (2 = harness error, never a violation). Known findings: known_findings.json.",
}
json.dump(m, open(os.path.join(here, "MANIFEST.json"), "w"), indent=1)
print(f"{len(checks)} checks, {len(na)} not applicable")

#!/venv/bin/python
"""Validate a seeded mutation and record it under /verif/seeded/<id>/.
usage: tools/seed.py <seed-id> <property> <patch.diff> <demo.py> [--checks C01,C03] [--seeds 1,2] [--notes notes.md]
Steps (all in a scratch worktree of /repo HEAD, removed afterwards):
  1. demo on the clean tree must print PASS / exit 0;  2. patch applies; demo must FAIL / exit != 0;
  3. the repository's test suite (under the shadow 0.2.8 version) gives the same counts as on the clean tree;
  4. the named checks are run against the mutated tree (VERIF_REPO) and their verdicts recorded."""
import argparse, json, os, re, shutil, subprocess, sys, tempfile

ap = argparse.ArgumentParser()
ap.add_argument("sid"); ap.add_argument("prop"); ap.add_argument("patch", nargs="?"); ap.add_argument("demo", nargs="?")
ap.add_argument("--checks"); ap.add_argument("--seeds", default="1"); ap.add_argument("--notes"); ap.add_argument("--needs", default="")
a = ap.parse_args()
V = os.path.dirname(os.path.dirname(os.path.abspath(__file__)))
if a.patch is None:   # re-check a mutant that is already recorded
    a.patch, a.demo = os.path.join(V, "seeded", a.sid, "patch.diff"), os.path.join(V, "seeded", a.sid, "demo.py")
    old = json.load(open(os.path.join(V, "seeded", a.sid, "meta.json")))
    a.needs = a.needs or old.get("needs", "")
tree = tempfile.mkdtemp(prefix="seedtree_", dir="/dev/shm")
os.rmdir(tree)
sh = lambda *c, **k: subprocess.run(c, capture_output=True, text=True, **k)
assert sh("git", "-C", "/repo", "worktree", "add", "-q", "--detach", tree, "HEAD").returncode == 0
sys.path.insert(0, V)
from vp import env as _env
shadow_root = tempfile.mkdtemp(prefix="seedshadow_", dir="/dev/shm")
shadow = _env.make_shadow_dist(shadow_root)
env = dict(os.environ, PYTHONPATH=f"{tree}:{shadow}")
meta = {"id": a.sid, "property": a.prop, "needs": a.needs, "ran": []}
try:
    def demo():
        r = sh("/venv/bin/python", os.path.abspath(a.demo), env=env, cwd=tree)
        return r.returncode, (r.stdout + r.stderr).strip().splitlines()[-1:] 
    def tests():
        r = sh("/venv/bin/python", "-m", "pytest", "-q", "-p", "no:cacheprovider", "--timeout=900", env=env, cwd=tree)
        return (r.stdout.strip().splitlines() or ["?"])[-1]
    rc0, out0 = demo(); t0 = tests()
    ap_ = sh("git", "-C", tree, "apply", os.path.abspath(a.patch))
    if ap_.returncode != 0:
        print("PATCH DOES NOT APPLY", ap_.stderr); sys.exit(3)
    rc1, out1 = demo(); t1 = tests()
    meta["demo_clean"] = {"exit": rc0, "last": out0}; meta["demo_mutated"] = {"exit": rc1, "last": out1}
    meta["tests_clean"] = t0; meta["tests_mutated"] = t1
    strip = lambda s: re.sub(r",? *[0-9]+ warnings?", "", re.sub(r" in [0-9.]+s.*", "", s))   # pass / fail / error counts
    ok = rc0 == 0 and rc1 != 0 and strip(t0) == strip(t1)
    meta["confirmed"] = ok
    print(f"demo clean exit {rc0} {out0}; mutated exit {rc1} {out1}\ntests clean: {t0}\ntests mutated: {t1}\nconfirmed={ok}")
    verdicts = {}
    for c in (a.checks or a.prop).split(","):
        for seed in a.seeds.split(","):
            e = dict(os.environ, VERIF_REPO=tree, VERIF_SEED=seed, VERIF_EVIDENCE_DIR=os.path.join(shadow_root, "ev"),
                     VERIF_REPLAY_DIR=os.path.join(shadow_root, "rp"))
            r = sh("./check", c, env=e, cwd=V)
            lines = [l for l in r.stdout.splitlines() if l.startswith(("VIOLATION", "  [", "[C"))]
            verdicts[f"{c}@seed{seed}"] = {"exit": r.returncode, "lines": [l[:300] for l in lines[:6]]}
            print(c, "seed", seed, "exit", r.returncode, *[l[:200] for l in lines[:3]], sep="\n   ")
            meta["ran"].append(f"VERIF_REPO=<mutated tree> VERIF_SEED={seed} ./check {c}")
            # the shrunk cases that exposed the change join the regression corpus of that check
            rd = os.path.join(shadow_root, "rp", c)
            if r.returncode == 1 and os.path.isdir(rd) and seed == a.seeds.split(",")[0]:
                os.makedirs(os.path.join(V, "corpus", c), exist_ok=True)
                for name in sorted(os.listdir(rd))[:3]:
                    rec = json.load(open(os.path.join(rd, name)))
                    if len(json.dumps(rec)) > 200_000:
                        continue
                    rec["origin"] = f"seeded change {a.sid}"
                    json.dump(rec, open(os.path.join(V, "corpus", c, f"{a.sid}__{name}"), "w"), indent=1)
                shutil.rmtree(rd, ignore_errors=True)
    meta["verdicts"] = verdicts
    meta["caught_by"] = sorted({k.split("@")[0] for k, v in verdicts.items() if v["exit"] == 1})
finally:
    sh("git", "-C", "/repo", "worktree", "remove", "--force", tree)
    shutil.rmtree(shadow_root, ignore_errors=True)
if meta.get("confirmed"):
    d = os.path.join(V, "seeded", a.sid); os.makedirs(d, exist_ok=True)
    if os.path.abspath(a.patch) != os.path.join(d, "patch.diff"):
        shutil.copy(a.patch, os.path.join(d, "patch.diff")); shutil.copy(a.demo, os.path.join(d, "demo.py"))
    if a.notes and os.path.exists(a.notes):
        shutil.copy(a.notes, os.path.join(d, "notes.md"))
        if not meta["needs"]:
            meta["needs"] = "see notes.md"
    json.dump(meta, open(os.path.join(d, "meta.json"), "w"), indent=1)
    print("recorded in", d, "caught_by", meta["caught_by"])

#!/bin/bash
# usage: tools/runall.sh [seed] [tier]   -- every registered check once, one line each; exit 1 if any is not quiet
cd "$(dirname "$0")/.." || exit 2
seed=${1:-1}; tier=${2:-quick}; bad=0
for i in 01 02 03 04 05 06 07 08 09 10 11 12 13 14 15 16 17 18 19 20; do
  out=$(VERIF_SEED=$seed VERIF_TIER=$tier ./check C$i 2>&1); rc=$?
  echo "C$i exit=$rc $(echo "$out" | grep -E '^\[C' | tail -1)"
  if [ $rc -ne 0 ]; then bad=1; echo "$out" | grep -E "VIOLATION|HARNESS|^  \[" | head -5; fi
done
exit $bad

#!/venv/bin/python
"""Regenerate seeded/README.md: one row per independently seeded change (which property it breaks, where
it was made, what it needs in order to manifest, which checks report it)."""
import json, os, re

V = os.path.dirname(os.path.dirname(os.path.abspath(__file__)))
rows = []
for d in sorted(os.listdir(os.path.join(V, "seeded"))):
    m = os.path.join(V, "seeded", d, "meta.json")
    if not os.path.exists(m):
        continue
    meta = json.load(open(m))
    patch = open(os.path.join(V, "seeded", d, "patch.diff")).read()
    files = sorted({l[len("+++ b/seismic_zfp/"):].strip() for l in patch.splitlines() if l.startswith("+++ b/seismic_zfp/")})
    notes = os.path.join(V, "seeded", d, "notes.md")
    needs = meta.get("needs", "")
    if os.path.exists(notes):
        txt = open(notes).read()
        mm = re.search(r"(?im)^[-* ]*\**(needed to manifest|trigger[^:\n]*|what is needed[^:\n]*|needs[^:\n]*)\**\s*:?\**\s*(.+)$", txt)
        if mm:
            needs = mm.group(2).strip()
        else:
            needs = next((l.strip("# ").strip() for l in txt.splitlines() if l.strip()), needs)
    needs = re.sub(r"\s+", " ", needs).replace("|", "/")[:220]
    verdict = []
    for k, v in sorted(meta.get("verdicts", {}).items()):
        kinds = sorted({re.sub(r"^\s*\[\w+\]\s*", "", l).split(":")[0] for l in v["lines"] if l.startswith("  [")})
        verdict.append(f"{k.split('@')[0]}: exit {v['exit']}" + (f" ({', '.join(kinds)[:80]})" if kinds else ""))
    special = {"superseded": "superseded (see meta.json)", "rejected": "rejected: not a violation (see meta.json)"}.get(meta.get("status"))
    reported = special + (" - on its own base tree reported by " + ", ".join(meta["caught_by"]) if special and meta.get("caught_by") else "") if special \
        else (", ".join(meta.get("caught_by", [])) or "MISSED")
    rows.append((d, meta["property"], ", ".join(files), needs, reported, "; ".join(verdict)))

with open(os.path.join(V, "seeded", "README.md"), "w") as f:
    f.write("# Independently seeded changes\n\nEach directory holds `patch.diff` (applies to /repo HEAD), `demo.py` (exits 0 on the clean tree, "
            "non-zero on the changed one), `notes.md` (the author's description) and `meta.json` (what `tools/seed.py` ran and saw: the "
            "demonstration on both trees, the repository suite on both trees, the verdict of the named checks against the changed tree).\n"
            "The authors were sub-agents given only the property text and a scratch worktree; nothing from /verif.\n\n")
    f.write("| id | property | file(s) | needs | reported by | verdicts |\n|---|---|---|---|---|---|\n")
    for r in rows:
        f.write("| " + " | ".join(r) + " |\n")
    n = len(rows)
    c = sum(1 for r in rows if r[4] != "MISSED" and not r[4].startswith(("superseded", "rejected")))
    sup = sum(1 for r in rows if r[4].startswith("superseded"))
    rej = sum(1 for r in rows if r[4].startswith("rejected"))
    f.write(f"\n{c} of {n} reported by a check (quick tier, seed 1); {sup} superseded by a repair of /repo; {rej} rejected as not violating the property; {n - c - sup - rej} missed.\n")
print(f"{len(rows)} rows")

#!/venv/bin/python
"""Which functions of the library have the seeded changes (seeded/*/patch.diff) touched?

Every patch is applied to a scratch worktree of /repo HEAD (removed afterwards); a function counts as
touched by a patch when its source text differs from the clean tree's.  Prints a summary and writes
the table to the path given as argv[1] (default: stdout only)."""
import ast, glob, hashlib, json, os, subprocess, sys, tempfile

REPO = "/repo"
HERE = os.path.dirname(os.path.dirname(os.path.abspath(__file__)))


def functions(tree_dir):
    out = {}
    for p in sorted(glob.glob(os.path.join(tree_dir, "seismic_zfp", "*.py"))):
        mod = os.path.basename(p)[:-3]
        src = open(p).read()
        try:
            t = ast.parse(src)
        except SyntaxError:
            continue
        lines = src.splitlines()

        def walk(node, prefix):
            for n in node.body:
                if isinstance(n, (ast.FunctionDef, ast.AsyncFunctionDef)):
                    text = "\n".join(lines[n.lineno - 1:n.end_lineno])
                    out[f"{mod}.{prefix}{n.name}"] = hashlib.sha1(text.encode()).hexdigest()
                elif isinstance(n, ast.ClassDef):
                    walk(n, prefix + n.name + ".")
        walk(t, "")
    return out


def main():
    scratch = tempfile.mkdtemp(prefix="touched_", dir="/dev/shm")
    tree = os.path.join(scratch, "t")
    subprocess.run(["git", "-C", REPO, "worktree", "add", "-q", "--detach", tree, "HEAD"], check=True)
    try:
        clean = functions(tree)
        touched = {}
        for d in sorted(glob.glob(os.path.join(HERE, "seeded", "C*-m*"))):
            patch = os.path.join(d, "patch.diff")
            if not os.path.exists(patch):
                continue
            if subprocess.run(["git", "-C", tree, "apply", patch], capture_output=True).returncode != 0:
                continue
            now = functions(tree)
            for f, h in clean.items():
                if now.get(f) != h:
                    touched.setdefault(f, []).append(os.path.basename(d))
            for f in now:
                if f not in clean:
                    touched.setdefault(f + " (new)", []).append(os.path.basename(d))
            subprocess.run(["git", "-C", tree, "checkout", "-q", "--", "."], check=True)
            subprocess.run(["git", "-C", tree, "clean", "-fdq"], check=True)
        res = {"functions": len(clean), "touched": {f: v for f, v in sorted(touched.items()) if f in clean},
               "untouched": sorted(f for f in clean if f not in touched)}
        print(f"{len(clean)} functions, {len(res['touched'])} touched, {len(res['untouched'])} untouched")
        if len(sys.argv) > 1:
            json.dump(res, open(sys.argv[1], "w"), indent=1)
        else:
            for f in res["untouched"]:
                print("  ", f)
    finally:
        subprocess.run(["git", "-C", REPO, "worktree", "remove", "--force", tree])
        subprocess.run(["git", "-C", REPO, "worktree", "prune"])
        os.rmdir(scratch) if os.path.isdir(scratch) and not os.listdir(scratch) else None


if __name__ == "__main__":
    main()

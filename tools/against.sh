#!/bin/bash
# usage: tools/against.sh <property> <git-revert-spec or patch file> [seed]
# Runs a check against a scratch copy of /repo with a commit reverted (sensitivity test); removes the copy.
prop=$1; what=$2; seed=${3:-1}
m=/dev/shm/mut_$$
git -C /repo worktree add -q --detach $m HEAD || exit 2
if [ -f "$what" ]; then what=$(realpath "$what"); git -C $m apply "$what" || { git -C /repo worktree remove --force $m; exit 2; }
else git -C $m revert --no-commit $what >/dev/null || { git -C /repo worktree remove --force $m; exit 2; }; fi
cd /verif && VERIF_EVIDENCE_DIR=/dev/shm/against_ev VERIF_REPLAY_DIR=${VERIF_REPLAY_DIR:-/dev/shm/against_rp} VERIF_REPO=$m VERIF_SEED=$seed ./check $prop 2>&1 | grep -v WARN | grep -E "VIOLATION|^\[|^  \[|HARNESS" | cut -c1-300
git -C /repo worktree remove --force $m

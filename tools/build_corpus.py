#!/venv/bin/python
"""Rebuild corpus/<prop>/ entries from the repaired findings.
usage: tools/build_corpus.py [Fxx ...]     (default: every fixed finding of known_findings.json)

For each fixed finding the fix commit is reverted on a scratch worktree of /repo HEAD (fallback: the
parent of the fix commit is checked out), the checks of the properties it names are run against that
tree (VERIF_REPO) with the corpus tier off, and every shrunk replay they write is copied to
corpus/<prop>/<Fid>__<bucket>.json.  On the repaired tree each of these cases passes; the corpus tier
of every check replays them first (vp/core.py:run_corpus)."""
import json, os, shutil, subprocess, sys, tempfile

V = os.path.dirname(os.path.dirname(os.path.abspath(__file__)))
sh = lambda *c, **k: subprocess.run(c, capture_output=True, text=True, **k)
K = json.load(open(os.path.join(V, "known_findings.json")))["findings"]
want = set(sys.argv[1:])
log = {}
for f in K:
    if f["status"] != "fixed" or (want and f["id"] not in want):
        continue
    tree = tempfile.mkdtemp(prefix="corp_", dir="/dev/shm"); os.rmdir(tree)
    assert sh("git", "-C", "/repo", "worktree", "add", "-q", "--detach", tree, "HEAD").returncode == 0
    how = "revert"
    try:
        r = sh("git", "-C", tree, "revert", "--no-commit", f["commit"])
        if r.returncode != 0:
            sh("git", "-C", tree, "revert", "--abort"); sh("git", "-C", tree, "reset", "--hard", "-q", "HEAD")
            sh("git", "-C", tree, "checkout", "-q", "--detach", f["commit"] + "^")
            how = "parent"
        for prop in [f["property"]] + list(f.get("also", [])):
            out = tempfile.mkdtemp(prefix="corpout_", dir="/dev/shm")
            e = dict(os.environ, VERIF_REPO=tree, VERIF_SEED="1", VERIF_NO_CORPUS="1",
                     VERIF_EVIDENCE_DIR=os.path.join(out, "ev"), VERIF_REPLAY_DIR=os.path.join(out, "rp"))
            r = sh("./check", prop, env=e, cwd=V)
            got = []
            rd = os.path.join(out, "rp", prop)
            if r.returncode == 1 and os.path.isdir(rd):
                os.makedirs(os.path.join(V, "corpus", prop), exist_ok=True)
                for name in sorted(os.listdir(rd)):
                    dst = os.path.join(V, "corpus", prop, f"{f['id']}__{name}")
                    rec = json.load(open(os.path.join(rd, name)))
                    rec["origin"] = f"{f['id']} ({how} of {f['commit']}): {f['what'][:160]}"
                    json.dump(rec, open(dst, "w"), indent=1)
                    got.append(name)
            shutil.rmtree(out, ignore_errors=True)
            log[f"{f['id']}/{prop}"] = {"how": how, "exit": r.returncode, "replays": got}
            print(f["id"], prop, how, "exit", r.returncode, got, flush=True)
    finally:
        sh("git", "-C", "/repo", "worktree", "remove", "--force", tree)
json.dump(log, open("/dev/shm/build_corpus_log.json", "w"), indent=1)

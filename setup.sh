#!/bin/bash
# Offline setup: nothing is fetched.  Verifies the interpreter and packages the checks need, installs
# hypothesis from the local wheelhouse if it is missing, and runs the machinery's self-checks.
here="$(cd "$(dirname "$0")" && pwd)"
cd "$here" || exit 2
PY=${VERIF_PYTHON:-/venv/bin/python}
export PIP_NO_INDEX=1
if ! "$PY" -c "import hypothesis" 2>/dev/null; then
  "$PY" -m pip install --no-index --find-links /opt/veriftools/wheels hypothesis || exit 2
fi
"$PY" -c "import numpy, segyio, zfpy, hypothesis, psutil, click; print('deps ok: hypothesis', hypothesis.__version__)" || exit 2
chmod +x "$here/check"
exec "$PY" -m vp.selfcheck
